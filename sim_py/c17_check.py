#!/usr/bin/env python3
"""Check driver for C17: builds the extension module from /repo's current tree, runs the callback-seam
simulation (c17_sim.py) in two fresh interpreters with different hash seeds, compares their event-log
digests, writes /verif/evidence/C17.json, prints VIOLATION / KNOWN-FINDING lines.
exit 0 held / 1 violation / 2 harness error."""
import argparse
import json
import os
import shutil
import subprocess
import sys
import time

HERE = os.path.dirname(os.path.abspath(__file__))
VERIF = os.path.dirname(HERE)
TARGET = os.path.join(HERE, "target")
MOD = os.path.join(HERE, "mod")
SIM = os.path.join(HERE, "c17_sim.py")


def harness_error(msg):
    print(f"c17_check: {msg} (harness error, no verdict)", file=sys.stderr)
    sys.exit(2)


def build():
    env = dict(os.environ, CARGO_NET_OFFLINE="true")
    r = subprocess.run(["cargo", "rustc", "--offline", "--lib", "--features", "python", "--crate-type", "cdylib", "--target-dir", TARGET],
                       cwd="/repo", env=env, capture_output=True, text=True)
    lib = os.path.join(TARGET, "debug", "libnum_dual.so")
    if r.returncode != 0 or not os.path.exists(lib):
        print(r.stderr[-3000:], file=sys.stderr)
        harness_error("building the python extension module from /repo failed")
    os.makedirs(MOD, exist_ok=True)
    shutil.copy(lib, os.path.join(MOD, "num_dual.so"))


def run_sim(args, hashseed, out):
    env = dict(os.environ, PYTHONPATH=MOD, PYTHONHASHSEED=hashseed, PYTHONDONTWRITEBYTECODE="1")
    if os.path.exists(out):
        os.remove(out)
    r = subprocess.run([sys.executable, SIM, "--out", out] + args, env=env, capture_output=True, text=True)
    if r.returncode != 0 or not os.path.exists(out):
        print(r.stdout[-2000:], r.stderr[-3000:], file=sys.stderr)
        harness_error(f"simulator process failed (exit {r.returncode})")
    return json.load(open(out))


def known_findings():
    p = os.path.join(VERIF, "known_findings.json")
    if not os.path.exists(p):
        return {}
    try:
        return {e["key"]: e.get("what", "") for e in json.load(open(p)).get("known", []) if e.get("property") == "C17"}
    except Exception as e:  # noqa: BLE001
        harness_error(f"known_findings.json unreadable: {e}")


def main():
    ap = argparse.ArgumentParser()
    ap.add_argument("--tier", default="quick")
    ap.add_argument("--seed", type=int, default=20261002)
    ap.add_argument("--replay")
    a = ap.parse_args()
    t0 = time.time()
    build()
    tmp = os.path.join(HERE, "target", "sim_out")
    os.makedirs(tmp, exist_ok=True)
    if a.replay:
        r = run_sim(["--replay", a.replay], "0", os.path.join(tmp, "replay.json"))
        print(json.dumps({k: r[k] for k in ("case", "plan", "fault_free", "outcome", "invocations", "violation")}, indent=1))
        if r["violation"]:
            print(f"VIOLATION property=C17 replay={a.replay}")
            sys.exit(1)
        print("no violation on this tree")
        sys.exit(0)

    args = ["--tier", a.tier, "--seed", str(a.seed)]
    r1 = run_sim(args, "0", os.path.join(tmp, "run1.json"))
    r2 = run_sim(args, "random", os.path.join(tmp, "run2.json"))
    deterministic = r1["digest"] == r2["digest"] and (r1["violation"] is None) == (r2["violation"] is None)
    if not deterministic:
        harness_error(f"two interpreters disagree on the event log of seed {a.seed}: {r1['digest']} vs {r2['digest']}")
    st = r1["stats"]
    exit_code, violations, known_hit = 0, 0, []
    v = r1["violation"]
    if v:
        key = v["finding_key"]
        kf = known_findings()
        if key in kf:
            print(f"KNOWN-FINDING: property=C17 {key}: {kf[key]}")
            known_hit.append(key)
        else:
            os.makedirs(os.path.join(VERIF, "replays"), exist_ok=True)
            path = os.path.join(VERIF, "replays", f"C17-seed{a.seed}-s{v['scenario_index']}.json")
            json.dump({"property": "C17", **v, "seed": a.seed}, open(path, "w"), indent=1)
            print(f"violation class {v['class']} in {v['case']['driver']} (n={len(v['case']['x'])}, fn={v['case']['fn']}) under plan {v['plan']}; minimised in {v['minimise_steps']} steps")
            print(f"  {v['message']}")
            print(f"VIOLATION property=C17 replay={path}")
            exit_code, violations = 1, 1
    wall = time.time() - t0
    sim_wall = max(r1["wall_s"], 1e-9)
    ev = {
        "property_id": "C17", "tier": a.tier, "seed": a.seed, "level": "fault_enumeration",
        "coverage": {
            "evaluations": st["runs"],
            "distinct_nontrivial": st["distinct_histories_with_fault_fired"],
            "rule": "one evaluation = one call of a Python driver function of the real extension module with a Probe callable; for every scenario "
                    "(driver x vector length(s) 1..12 x user function x container, points seeded) the fault-free run is executed twice and then EVERY plan of the "
                    "fault table is applied (raise one of 5 exception kinds incl. a BaseException 'cancel' at invocation 1, transient or permanent; raise at invocation "
                    "k>=2; wrong-typed return at invocation 1 or 2). distinct_nontrivial = distinct (scenario, plan, invocation log, outcome kind) histories in which a "
                    "planned fault actually fired",
            "samples": r1["samples"],
            "scenarios": st["scenarios"], "plans_per_scenario": st["plans_per_scenario"], "faults_planned": st["faults_planned"],
            "runs_in_which_a_fault_fired": st["fired_runs"], "fault_kinds_fired": st["faults_fired"],
            "driver_scenarios": st["drivers"], "vector_lengths": st["lengths"], "outcomes_that_raised": st["raised_outcomes"],
            "max_callable_invocations_in_one_driver_call": st["max_invocations"],
            "simulated_runs_per_hour": int(st["runs"] / sim_wall * 3600), "seeds_per_hour_at_this_tier": int(3600 / max(wall, 1e-9)),
            "simulated_time": "none: no clock or timer exists in the code under test; a run is one driver call",
            "determinism_check": {"interpreters": 2, "PYTHONHASHSEED": ["0", "random"], "digest": r1["digest"], "digest_equal": deterministic},
            "real_components": ["the extension module built from /repo (pyo3 glue, length-dispatch chains of the 10 driver functions, Rust try_* drivers, dual arithmetic)", "CPython"],
            "stubbed_components": ["the user callable (Probe): numbers its invocations and injects the planned fault"],
            "invariants": ["F1 an exception raised by the first invocation comes out of the driver as that very object",
                           "F2 a fault planned for invocation k>=2 never fires and the outcome equals the fault-free run bit for bit",
                           "F4 the fault-free run is deterministic"],
            "known_findings_hit": known_hit,
            "exhaustive": True,
        },
        "assumptions": ["only the callback seam is simulated; operator/method transparency of C17 (a pure-input question) is outside this check",
                        "the reference for a failing callable is the Rust try_* contract: closure invoked once, its error returned unchanged",
                        "the fault table is enumerated completely per scenario; scenarios enumerate drivers x lengths x functions, evaluation points are seeded"],
        "wall_s": round(wall, 2), "violations": violations,
    }
    os.makedirs(os.path.join(VERIF, "evidence"), exist_ok=True)
    json.dump(ev, open(os.path.join(VERIF, "evidence", "C17.json"), "w"), indent=1)
    print(f"C17 callback-seam simulation: seed={a.seed} tier={a.tier} scenarios={st['scenarios']} runs={st['runs']} fired_runs={st['fired_runs']} "
          f"distinct_faulted_histories={st['distinct_histories_with_fault_fired']} deterministic={deterministic} wall={wall:.1f}s")
    print(f"fault kinds fired: {st['faults_fired']}")
    sys.exit(exit_code)


if __name__ == "__main__":
    main()
