#!/usr/bin/env python3
"""Check driver for C17: builds the extension module from /repo's current tree, runs the callback-seam
simulation (c17_sim.py) in two fresh interpreters with different hash seeds, compares their event-log
digests, writes /verif/evidence/C17.json, prints VIOLATION / KNOWN-FINDING lines.
exit 0 held / 1 violation / 2 harness error."""
import argparse
import json
import os
import shutil
import subprocess
import sys
import time

HERE = os.path.dirname(os.path.abspath(__file__))
VERIF = os.path.dirname(HERE)
TARGET = os.path.join(HERE, "target")
MOD = os.path.join(HERE, "mod")
SIM = os.path.join(HERE, "c17_sim.py")
CONF = os.path.join(HERE, "c17_conf.py")
TWIN_DIR = os.path.join(HERE, "twin")
TWIN = os.path.join(TWIN_DIR, "target", "release", "c17-twin")


def harness_error(msg):
    print(f"c17_check: {msg} (harness error, no verdict)", file=sys.stderr)
    sys.exit(2)


def build():
    env = dict(os.environ, CARGO_NET_OFFLINE="true")
    r = subprocess.run(["cargo", "rustc", "--offline", "--lib", "--features", "python", "--crate-type", "cdylib", "--target-dir", TARGET],
                       cwd="/repo", env=env, capture_output=True, text=True)
    lib = os.path.join(TARGET, "debug", "libnum_dual.so")
    if r.returncode != 0 or not os.path.exists(lib):
        print(r.stderr[-3000:], file=sys.stderr)
        harness_error("building the python extension module from /repo failed")
    os.makedirs(MOD, exist_ok=True)
    shutil.copy(lib, os.path.join(MOD, "num_dual.so"))
    # the reference model: the same operation programs on the Rust types, built from the same tree
    if not os.path.exists(os.path.join(TWIN_DIR, "Cargo.lock")):
        shutil.copy("/repo/Cargo.lock", os.path.join(TWIN_DIR, "Cargo.lock"))
    r = subprocess.run(["cargo", "build", "--release", "--offline"], cwd=TWIN_DIR, env=env, capture_output=True, text=True)
    if r.returncode != 0 or not os.path.exists(TWIN):
        print(r.stderr[-3000:], file=sys.stderr)
        harness_error("building the Rust reference model (twin) against /repo failed")


PY = {"exe": sys.executable, "numpy": None}


def pick_interpreter():
    """prefer an installed interpreter that can import numpy (array operands of the operators need it)"""
    for exe in (sys.executable, shutil.which("python3-vt"), shutil.which("python3")):
        if not exe:
            continue
        r = subprocess.run([exe, "-c", "import numpy, sys; print(numpy.__version__, sys.version_info[:2] >= (3, 7))"], capture_output=True, text=True)
        if r.returncode == 0 and r.stdout.split()[-1] == "True":
            PY["exe"], PY["numpy"] = exe, r.stdout.split()[0]
            return
    PY["exe"], PY["numpy"] = sys.executable, None


def run_py(script, args, hashseed, out, extra_env=None):
    env = dict(os.environ, PYTHONPATH=MOD, PYTHONHASHSEED=hashseed, PYTHONDONTWRITEBYTECODE="1")
    env.pop("PYTHONWARNINGS", None)
    env.update(extra_env or {})
    if os.path.exists(out):
        os.remove(out)
    r = subprocess.run([PY["exe"], script] + args + ["--out", out], env=env, capture_output=True, text=True)
    if r.returncode != 0 or not os.path.exists(out):
        print(r.stdout[-2000:], r.stderr[-3000:], file=sys.stderr)
        harness_error(f"{os.path.basename(script)} failed (exit {r.returncode})")
    return json.load(open(out))


def run_twin(jobs_path, ref_path):
    r = subprocess.run([TWIN, jobs_path], capture_output=True, text=True)
    if r.returncode != 0:
        print(r.stderr[-3000:], file=sys.stderr)
        harness_error("the Rust reference model failed on the generated jobs")
    open(ref_path, "w").write(r.stdout)


def conformance(tier, seed, tmp):
    """fault-free tier: generated client programs, Python module vs Rust twin, step by step"""
    jobs, ref = os.path.join(tmp, "jobs.json"), os.path.join(tmp, "ref.json")
    run_py(CONF, ["emit", "--seed", str(seed), "--tier", tier, "--numpy", "1" if PY["numpy"] else "0"], "0", jobs)
    run_twin(jobs, ref)
    c1 = run_py(CONF, ["run", "--jobs", jobs, "--ref", ref], "0", os.path.join(tmp, "conf1.json"))
    # the second interpreter differs in two ways a deployment may differ: hash seed, and warnings turned into errors
    # (python -W error, pytest filterwarnings = error): the Rust operations never warn
    c2 = run_py(CONF, ["run", "--jobs", jobs, "--ref", ref], "random", os.path.join(tmp, "conf2.json"), {"PYTHONWARNINGS": "error"})
    if c1["digest"] != c2["digest"]:
        if c2.get("mismatches") and not c1.get("mismatches"):
            for m in c2["mismatches"]:
                m["mismatch"]["interpreter"] = "warnings turned into errors (PYTHONWARNINGS=error)"
                m["interpreter_env"] = {"PYTHONWARNINGS": "error"}
            return c2
        harness_error(f"two interpreters disagree on the conformance log: {c1['digest']} vs {c2['digest']}")
    return c1


def minimise_conformance(mm, tmp):
    """scalar jobs: dependency slice up to the first mismatching register, re-checked against the twin"""
    job = mm["job"]
    if job["kind"] != "scalar" or mm["mismatch"]["at"] < len(job["inputs"]):
        return job, 0
    sys.path.insert(0, HERE)
    import c17_conf
    if "array_plan" in job:
        cand = c17_conf.truncate_array_job(job, mm["mismatch"]["at"])
    else:
        cand = c17_conf.slice_job(job, mm["mismatch"]["at"])
    jp, rp = os.path.join(tmp, "min_jobs.json"), os.path.join(tmp, "min_ref.json")
    json.dump([cand], open(jp, "w"))
    run_twin(jp, rp)
    r = run_py(CONF, ["run", "--jobs", jp, "--ref", rp], "0", os.path.join(tmp, "min_conf.json"), mm.get("interpreter_env"))
    if r["mismatch"]:
        return cand, len(job["ops"]) - len(cand["ops"])
    return job, 0


def run_sim(args, hashseed, out):
    env = dict(os.environ, PYTHONPATH=MOD, PYTHONHASHSEED=hashseed, PYTHONDONTWRITEBYTECODE="1")
    if os.path.exists(out):
        os.remove(out)
    r = subprocess.run([PY["exe"], SIM, "--out", out] + args, env=env, capture_output=True, text=True)
    if r.returncode != 0 or not os.path.exists(out):
        print(r.stdout[-2000:], r.stderr[-3000:], file=sys.stderr)
        harness_error(f"simulator process failed (exit {r.returncode})")
    return json.load(open(out))


def known_findings():
    p = os.path.join(VERIF, "known_findings.json")
    if not os.path.exists(p):
        return {}
    try:
        return {e["key"]: e.get("what", "") for e in json.load(open(p)).get("known", []) if e.get("property") == "C17"}
    except Exception as e:  # noqa: BLE001
        harness_error(f"known_findings.json unreadable: {e}")


def main():
    ap = argparse.ArgumentParser()
    ap.add_argument("--tier", default="quick")
    ap.add_argument("--seed", type=int, default=20261002)
    ap.add_argument("--replay")
    a = ap.parse_args()
    t0 = time.time()
    build()
    pick_interpreter()
    tmp = os.path.join(HERE, "target", "sim_out")
    os.makedirs(tmp, exist_ok=True)
    if a.replay and json.load(open(a.replay)).get("tier_of_violation") == "conformance":
        rf = json.load(open(a.replay))
        jp, rp = os.path.join(tmp, "replay_jobs.json"), os.path.join(tmp, "replay_ref.json")
        json.dump([rf["job"]], open(jp, "w"))
        run_twin(jp, rp)
        r = run_py(CONF, ["run", "--jobs", jp, "--ref", rp], "0", os.path.join(tmp, "replay_conf.json"), rf.get("interpreter_env"))
        print(json.dumps({"job": rf["job"], "mismatch": r["mismatch"] and r["mismatch"]["mismatch"]}, indent=1)[:4000])
        if r["mismatch"]:
            print(f"VIOLATION property=C17 replay={a.replay}")
            sys.exit(1)
        print("no violation on this tree")
        sys.exit(0)
    if a.replay:
        r = run_sim(["--replay", a.replay], "0", os.path.join(tmp, "replay.json"))
        print(json.dumps({k: r[k] for k in ("case", "plan", "fault_free", "outcome", "invocations", "violation")}, indent=1))
        if r["violation"]:
            print(f"VIOLATION property=C17 replay={a.replay}")
            sys.exit(1)
        print("no violation on this tree")
        sys.exit(0)

    conf = conformance(a.tier, a.seed, tmp)
    args = ["--tier", a.tier, "--seed", str(a.seed)]
    r1 = run_sim(args, "0", os.path.join(tmp, "run1.json"))
    r2 = run_sim(args, "random", os.path.join(tmp, "run2.json"))
    deterministic = r1["digest"] == r2["digest"] and (r1["violation"] is None) == (r2["violation"] is None)
    if not deterministic:
        harness_error(f"two interpreters disagree on the event log of seed {a.seed}: {r1['digest']} vs {r2['digest']}")
    st = r1["stats"]
    exit_code, violations, known_hit = 0, 0, []
    kf = known_findings()
    reported = set()
    for mm in conf.get("mismatches", []):
        key = mm["finding_key"]
        if key in reported:
            continue
        reported.add(key)
        if key in kf:
            print(f"KNOWN-FINDING: property=C17 {key}: {kf[key]}")
            known_hit.append(key)
            continue
        violations += 1
        if exit_code:
            continue  # one VIOLATION line per run; further unknown mismatches are listed in the evidence
        job, dropped = minimise_conformance(mm, tmp)
        os.makedirs(os.path.join(VERIF, "replays"), exist_ok=True)
        path = os.path.join(VERIF, "replays", f"C17-seed{a.seed}-conf{mm['job_index']}.json")
        json.dump({"property": "C17", "tier_of_violation": "conformance", "seed": a.seed, "job_index": mm["job_index"], "job": job,
                   "operations_dropped_by_minimisation": dropped, "mismatch": mm["mismatch"], "finding_key": key, "interpreter_env": mm.get("interpreter_env")}, open(path, "w"), indent=1)
        print(f"conformance mismatch in job {mm['job_index']} ({job.get('class') or job.get('driver')}) at {mm['mismatch']['what']}; {dropped} operations dropped by minimisation")
        print("  " + json.dumps(mm["mismatch"])[:600])
        print(f"VIOLATION property=C17 replay={path}")
        exit_code = 1
    for v in r1.get("violations", []):
        key = v["finding_key"]
        if key in kf:
            print(f"KNOWN-FINDING: property=C17 {key}: {kf[key]}")
            known_hit.append(key)
            continue
        violations += 1
        if exit_code:
            continue  # one VIOLATION line per run; the other keys are listed in the evidence
        os.makedirs(os.path.join(VERIF, "replays"), exist_ok=True)
        path = os.path.join(VERIF, "replays", f"C17-seed{a.seed}-s{v['scenario_index']}.json")
        json.dump({"property": "C17", **v, "seed": a.seed}, open(path, "w"), indent=1)
        print(f"violation class {v['class']} in {v['case']['driver']} (n={len(v['case']['x'])}, fn={v['case']['fn']}) under plan {v['plan']}; minimised in {v['minimise_steps']} steps")
        print(f"  {v['message']}")
        print(f"VIOLATION property=C17 replay={path}")
        exit_code = 1
    wall = time.time() - t0
    sim_wall = max(r1["wall_s"], 1e-9)
    ev = {
        "property_id": "C17", "tier": a.tier, "seed": a.seed, "level": "fault_enumeration",
        "coverage": {
            "conformance_tier": {
                "what": "fault-free configuration: generated straight-line programs executed step by step on the Python classes and on the Rust reference model (twin) built from the same tree; every part of every register (getters, IEEE bit patterns), every repr() vs Rust Display, every driver result compared",
                "mismatching_programs": len(conf.get("mismatches", [])), "distinct_finding_keys": sorted({m["finding_key"] for m in conf.get("mismatches", [])}),
                "jobs": conf["stats"]["jobs"], "operations": conf["stats"]["operations"], "registers_compared": conf["stats"]["registers_compared"],
                "programs_per_class": conf["stats"]["by_class"], "programs_per_driver": conf["stats"]["by_driver"],
                "interpreter": PY["exe"], "numpy": PY["numpy"] or "not available: array-operand programs skipped",
                "array_operand_programs": conf["stats"].get("array_operand_programs", 0), "array_operations": conf["stats"].get("array_operations", 0),
                "distinct_operations_used": len(conf["stats"]["ops_used"]), "operations_used": conf["stats"]["ops_used"], "digest": conf["digest"], "sample": conf["sample"],
            },
            "evaluations": st["runs"],
            "distinct_nontrivial": st["distinct_histories_with_fault_fired"],
            "rule": "one evaluation = one call of a Python driver function of the real extension module with a Probe callable; for every scenario "
                    "(driver x vector length(s) 1..12 x user function x container, points seeded) the fault-free run is executed twice and then EVERY plan of the "
                    "fault table is applied (raise one of 8 exception kinds - incl. a BaseException 'cancel', KeyboardInterrupt, StopIteration and an exception whose __str__ "
                    "fails - at invocation 1, transient or permanent; 12 statements that fail inside the callable's body with the interpreter's own exception objects and messages (arity errors, unsupported operands, NameError, IndexError, KeyError, AttributeError, ValueError, AssertionError, RecursionError, a TypeError subclass quoting an arity message); raise at invocation k>=2; wrong-typed return (7 kinds) at invocation 1 or 2; re-entrancy: the callable "
                    "calls the same driver again, same lengths, other point, before using its own argument); after every run in which a fault fired the fault-free run is "
                    "repeated (residue), and every argument a callable was handed is retained and re-examined after the driver returned and after later driver calls. "
                    "distinct_nontrivial = distinct (scenario, plan, invocation log, outcome kind) histories in which a "
                    "planned fault actually fired",
            "samples": r1["samples"],
            "scenarios": st["scenarios"], "plans_per_scenario": st["plans_per_scenario"], "faults_planned": st["faults_planned"],
            "runs_in_which_a_fault_fired": st["fired_runs"], "fault_kinds_fired": st["faults_fired"],
            "driver_scenarios": st["drivers"], "vector_lengths": st["lengths"], "outcomes_that_raised": st["raised_outcomes"],
            "max_callable_invocations_in_one_driver_call": st["max_invocations"],
            "simulated_runs_per_hour": int(st["runs"] / sim_wall * 3600), "seeds_per_hour_at_this_tier": int(3600 / max(wall, 1e-9)),
            "simulated_time": "none: no clock or timer exists in the code under test; a run is one driver call",
            "determinism_check": {"interpreters": 2, "PYTHONHASHSEED": ["0", "random"], "PYTHONWARNINGS_of_the_second_conformance_interpreter": "error", "digest": r1["digest"], "digest_equal": deterministic},
            "real_components": ["the extension module built from /repo (pyo3 glue, length-dispatch chains of the 10 driver functions, Rust try_* drivers, dual arithmetic)", "CPython"],
            "stubbed_components": ["the user callable (Probe): numbers its invocations and injects the planned fault"],
            "invariants": ["R  (conformance tier) every register, repr and driver result equals the Rust reference model bit for bit",
                           "F1 an exception raised by the first invocation comes out of the driver as that very object",
                           "F2 a fault planned for invocation k>=2 never fires and the outcome equals the fault-free run bit for bit",
                           "F4 the fault-free run is deterministic",
                           "F5 after a run in which a fault fired, the fault-free run still returns the same outcome",
                           "A1 an argument handed to the callable is not changed afterwards - not after the driver returned, not by later driver calls",
                           "A2 the object the callable returned is not changed by the driver",
                           "R1 re-entrancy: an inner call of the same driver from inside the callable changes neither the outer outcome nor its own"],
            "residue_checks": st.get("residue_checks", 0), "arguments_retained_and_rechecked": st.get("arguments_retained_and_rechecked", 0),
            "known_findings_hit": known_hit,
            "fault_tier_finding_keys": [v["finding_key"] for v in r1.get("violations", [])],
            "fault_table_enumerated_completely_per_scenario": True,
            "exhaustive": False,
        },
        "assumptions": ["evaluations / distinct_nontrivial count the fault tier only; the conformance tier is reported separately under coverage.conformance_tier and contains no fault or schedule",
                        "the name mapping Python -> Rust in sim_py/twin/src/main.rs is the statement of 'the corresponding Rust operation'; reflected operators are c + x, -x + c, x * c, x.recip() * c",
                        "the twin evaluates vector-valued drivers on the dynamically sized Rust types for every length (the module uses fixed-size types up to 10); results agree bit for bit on the pinned tree",
                        "numpy-array operands of the operators are exercised only when an installed interpreter can import numpy (coverage.conformance_tier.numpy says which was used)",
                        "in-place operator forms (y = x; y += b ...) are part of the generated programs: the reference is  let mut y = x.clone(); y += b  - the aliased register must stay what it was",
                        "the reference for a failing callable is the Rust try_* contract: closure invoked once, its error returned unchanged",
                        "the fault table is enumerated completely per scenario; scenarios enumerate drivers x lengths x functions, evaluation points are seeded"],
        "wall_s": round(wall, 2), "violations": violations,
    }
    os.makedirs(os.path.join(VERIF, "evidence"), exist_ok=True)
    json.dump(ev, open(os.path.join(VERIF, "evidence", "C17.json"), "w"), indent=1)
    print(f"C17 conformance tier: jobs={conf['stats']['jobs']} operations={conf['stats']['operations']} registers_compared={conf['stats']['registers_compared']} mismatch={'yes' if conf['mismatch'] else 'no'}")
    print(f"C17 callback-seam simulation: seed={a.seed} tier={a.tier} scenarios={st['scenarios']} runs={st['runs']} fired_runs={st['fired_runs']} "
          f"distinct_faulted_histories={st['distinct_histories_with_fault_fired']} deterministic={deterministic} wall={wall:.1f}s")
    print(f"fault kinds fired: {st['faults_fired']}")
    sys.exit(exit_code)


if __name__ == "__main__":
    main()
