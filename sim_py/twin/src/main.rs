//! Reference model for the conformance tier of the C17 simulation.
//!
//! Reads a JSON list of jobs, executes each on the Rust types of num-dual (built from /repo's
//! current tree), and prints a JSON list of results.  A job is a straight-line program over a
//! register file (each operation appends one register), either run directly on one of the scalar
//! dual number types the Python module exposes, or run as the body of the callback of one of the
//! ten driver functions.  The mapping from Python names to Rust operations below *is* the statement
//! "the corresponding Rust operation" of property C17, written down once.

use nalgebra::{DMatrix, DVector};
use num_dual::*;
use serde_json::{json, Value};
use std::fmt::Display;

type J = Value;

fn f(v: &J) -> f64 {
    match v {
        Value::String(s) => match s.as_str() {
            "nan" => f64::NAN,
            "inf" => f64::INFINITY,
            "-inf" => f64::NEG_INFINITY,
            h => u64::from_str_radix(h.trim_start_matches("0x"), 16).map(f64::from_bits).expect("bad float bits"),
        },
        _ => v.as_f64().expect("float expected"),
    }
}
fn us(v: &J) -> usize {
    v.as_u64().expect("index expected") as usize
}
/// IEEE bit pattern; every NaN is written "nan" (its sign and payload are not defined and differ between builds)
fn hexbits(x: f64) -> String {
    if x.is_nan() {
        "nan".to_string()
    } else {
        format!("{:016x}", x.to_bits())
    }
}
fn bits(x: f64) -> J {
    json!(hexbits(x))
}

/// One step of a program.  Names are the Python spellings.
fn step<D: DualNum<f64> + Clone>(op: &J, r: &[D]) -> D {
    let name = op["op"].as_str().expect("op name");
    let a = || r[us(&op["a"])].clone();
    let b = || r[us(&op["b"])].clone();
    let c = || f(&op["c"]);
    match name {
        // dual (op) dual
        "add" => a() + b(),
        "sub" => a() - b(),
        "mul" => a() * b(),
        "div" => a() / b(),
        // dual (op) float  -> __add__/__sub__/__mul__/__truediv__ with a float
        "add_f" => a() + c(),
        "sub_f" => a() - c(),
        "mul_f" => a() * c(),
        "div_f" => a() / c(),
        // float (op) dual  -> __radd__/__rsub__/__rmul__/__rtruediv__: c + x, c - x, c * x, c / x
        "radd_f" => a() + c(),
        "rsub_f" => -a() + c(),
        "rmul_f" => a() * c(),
        "rdiv_f" => a().recip() * c(),
        "neg" => -a(),
        // the staticmethod from_re of the register's class: a constant
        "from_re" => D::from(c()),
        // x ** int / float / dual and the named power methods
        "pow_i" | "powi" => a().powi(op["n"].as_i64().expect("n") as i32),
        "pow_f" | "powf" => a().powf(c()),
        // a Python int exponent that does not fit an i32: the power with the exponent as a float
        "pow_bigint" => a().powf(c()),
        "pow_d" | "powd" => a().powd(b()),
        "recip" => a().recip(),
        "sqrt" => a().sqrt(),
        "cbrt" => a().cbrt(),
        "exp" => a().exp(),
        "exp2" => a().exp2(),
        "expm1" => a().exp_m1(),
        "log" => a().ln(),
        "log_base" => a().log(c()),
        "log2" => a().log2(),
        "log10" => a().log10(),
        "log1p" => a().ln_1p(),
        "sin" => a().sin(),
        "cos" => a().cos(),
        "tan" => a().tan(),
        "sin_cos_0" => a().sin_cos().0,
        "sin_cos_1" => a().sin_cos().1,
        "arcsin" => a().asin(),
        "arccos" => a().acos(),
        "arctan" => a().atan(),
        "sinh" => a().sinh(),
        "cosh" => a().cosh(),
        "tanh" => a().tanh(),
        "arcsinh" => a().asinh(),
        "arccosh" => a().acosh(),
        "arctanh" => a().atanh(),
        "sph_j0" => a().sph_j0(),
        "sph_j1" => a().sph_j1(),
        "sph_j2" => a().sph_j2(),
        "mul_add" => a().mul_add(b(), r[us(&op["d"])].clone()),
        other => panic!("twin: unknown op {other}"),
    }
}

fn run<D: DualNum<f64> + Clone>(ops: &[J], inputs: Vec<D>) -> Vec<D> {
    let mut r = inputs;
    for op in ops {
        let v = step(op, &r);
        r.push(v);
    }
    r
}

trait Flat {
    /// all parts in the order the Python getters expose them (value, first, second, third derivative)
    fn flat(&self) -> Vec<f64>;
}
impl Flat for f64 {
    fn flat(&self) -> Vec<f64> {
        vec![*self]
    }
}
impl<T: DualNum<f64> + Flat> Flat for Dual<T, f64> {
    fn flat(&self) -> Vec<f64> {
        [self.re.flat(), self.eps.flat()].concat()
    }
}
impl<T: DualNum<f64> + Flat> Flat for Dual2<T, f64> {
    fn flat(&self) -> Vec<f64> {
        [self.re.flat(), self.v1.flat(), self.v2.flat()].concat()
    }
}
impl<T: DualNum<f64> + Flat> Flat for Dual3<T, f64> {
    fn flat(&self) -> Vec<f64> {
        [self.re.flat(), self.v1.flat(), self.v2.flat(), self.v3.flat()].concat()
    }
}
impl<T: DualNum<f64> + Flat> Flat for HyperDual<T, f64> {
    fn flat(&self) -> Vec<f64> {
        [self.re.flat(), self.eps1.flat(), self.eps2.flat(), self.eps1eps2.flat()].concat()
    }
}
impl<T: DualNum<f64> + Flat> Flat for HyperHyperDual<T, f64> {
    fn flat(&self) -> Vec<f64> {
        [
            self.re.flat(), self.eps1.flat(), self.eps2.flat(), self.eps3.flat(),
            self.eps1eps2.flat(), self.eps1eps3.flat(), self.eps2eps3.flat(), self.eps1eps2eps3.flat(),
        ]
        .concat()
    }
}

fn regs_out<D: Flat + Display>(regs: &[D]) -> J {
    json!(regs.iter().map(|r| json!({"parts": r.flat().into_iter().map(bits).collect::<Vec<_>>(), "repr": r.to_string()})).collect::<Vec<_>>())
}

fn d64(p: &[f64]) -> Dual64 {
    Dual64::new(p[0], p[1])
}

fn scalar_job(job: &J) -> J {
    let ops = job["ops"].as_array().expect("ops");
    let inputs: Vec<Vec<f64>> = job["inputs"].as_array().expect("inputs").iter().map(|i| i.as_array().unwrap().iter().map(f).collect()).collect();
    match job["class"].as_str().expect("class") {
        "Dual64" => regs_out(&run(ops, inputs.iter().map(|p| Dual64::new(p[0], p[1])).collect())),
        "Dual2_64" => regs_out(&run(ops, inputs.iter().map(|p| Dual2_64::new(p[0], p[1], p[2])).collect())),
        "Dual3_64" => regs_out(&run(ops, inputs.iter().map(|p| Dual3_64::new(p[0], p[1], p[2], p[3])).collect())),
        "HyperDual64" => regs_out(&run(ops, inputs.iter().map(|p| HyperDual64::new(p[0], p[1], p[2], p[3])).collect())),
        "HyperHyperDual64" => regs_out(&run(ops, inputs.iter().map(|p| HyperHyperDual64::new(p[0], p[1], p[2], p[3], p[4], p[5], p[6], p[7])).collect())),
        "Dual2Dual64" => regs_out(&run(ops, inputs.iter().map(|p| Dual2::<Dual64, f64>::new(d64(&p[0..2]), d64(&p[2..4]), d64(&p[4..6]))).collect())),
        "Dual3Dual64" => regs_out(&run(ops, inputs.iter().map(|p| Dual3::<Dual64, f64>::new(d64(&p[0..2]), d64(&p[2..4]), d64(&p[4..6]), d64(&p[6..8]))).collect())),
        "HyperDualDual64" => regs_out(&run(ops, inputs.iter().map(|p| HyperDual::<Dual64, f64>::new(d64(&p[0..2]), d64(&p[2..4]), d64(&p[4..6]), d64(&p[6..8]))).collect())),
        other => panic!("twin: unknown class {other}"),
    }
}

/// What the getters of a register inside a driver callback expose: the value and, for the vector classes,
/// the first- and second-order parts entry by entry: vectors in index order (entry i belongs to variable i);
/// matrices row by row with their shape (the Python side accepts rows-of-columns or columns-of-rows: which of the two a
/// matrix-valued getter hands out is an API choice C17 does not fix; any other arrangement is a different value).
trait CbParts {
    fn cb(&self) -> J;
}
/// entries of an optional part, row by row, with its shape; None when the part is absent (public API only)
fn part<R: nalgebra::Dim, C: nalgebra::Dim>(d: &Derivative<f64, f64, R, C>, r: R, c: C) -> Option<J>
where
    nalgebra::DefaultAllocator: nalgebra::allocator::Allocator<R, C>,
{
    if *d == Derivative::none() {
        None
    } else {
        let m = d.clone().unwrap_generic(r, c);
        let mut rm = vec![];
        for i in 0..m.nrows() {
            for j in 0..m.ncols() {
                rm.push(hexbits(m[(i, j)]));
            }
        }
        Some(json!({"r": m.nrows(), "c": m.ncols(), "rm": rm}))
    }
}
impl CbParts for DualDVec64 {
    fn cb(&self) -> J {
        json!({"value": bits(self.re), "first": part(&self.eps, nalgebra::Dyn(0), nalgebra::Const::<1>)})
    }
}
impl CbParts for Dual2DVec64 {
    fn cb(&self) -> J {
        json!({"value": bits(self.re), "first": part(&self.v1, nalgebra::Const::<1>, nalgebra::Dyn(0)), "second": part(&self.v2, nalgebra::Dyn(0), nalgebra::Dyn(0))})
    }
}
impl CbParts for HyperDualDVec64 {
    fn cb(&self) -> J {
        // the Python getter hands out the pair (eps1, eps2): the entries of eps1 in order, then those of eps2
        let (a, b) = (part(&self.eps1, nalgebra::Dyn(0), nalgebra::Const::<1>), part(&self.eps2, nalgebra::Const::<1>, nalgebra::Dyn(0)));
        let first: Option<J> = match (a, b) {
            (None, None) => None,
            (a, b) => {
                let mut rm: Vec<J> = vec![];
                for p in [a, b].into_iter().flatten() {
                    rm.extend(p["rm"].as_array().expect("rm").iter().cloned());
                }
                Some(json!({"r": rm.len(), "c": 1, "rm": rm}))
            }
        };
        json!({"value": bits(self.re), "first": first, "second": part(&self.eps1eps2, nalgebra::Dyn(0), nalgebra::Dyn(0))})
    }
}
macro_rules! cb_scalar {
    ($($t:ty),+) => { $( impl CbParts for $t { fn cb(&self) -> J { json!({"value": bits(self.re)}) } } )+ };
}
cb_scalar!(Dual64, Dual2_64, Dual3_64, HyperDual64, HyperHyperDual64);

/// Lift float constants that a driver program uses as extra inputs (registers after the variables).
fn with_consts<D: DualNum<f64> + Clone>(vars: Vec<D>, consts: &[f64]) -> Vec<D> {
    let mut v = vars;
    v.extend(consts.iter().map(|c| D::from(*c)));
    v
}

fn fl(xs: &[f64]) -> J {
    json!(xs.iter().map(|x| bits(*x)).collect::<Vec<_>>())
}

fn driver_job(job: &J) -> J {
    let ops = job["ops"].as_array().expect("ops");
    let x: Vec<f64> = job["x"].as_array().expect("x").iter().map(f).collect();
    let consts: Vec<f64> = job["consts"].as_array().map(|a| a.iter().map(f).collect()).unwrap_or_default();
    let ret = job.get("ret").and_then(|r| r.as_u64()).map(|r| r as usize);
    let mut reprs: Vec<String> = vec![];
    let mut getters: Vec<J> = vec![];
    macro_rules! body {
        ($vars:expr) => {{
            let regs = run(ops, with_consts($vars, &consts));
            reprs = regs.iter().map(|r| r.to_string()).collect();
            getters = regs.iter().map(|r| r.cb()).collect();
            regs[ret.unwrap_or(regs.len() - 1)].clone()
        }};
    }
    let result: J = match job["driver"].as_str().expect("driver") {
        "first_derivative" => {
            let (a, b) = first_derivative(|v| body!(vec![v]), x[0]);
            fl(&[a, b])
        }
        "second_derivative" => {
            let (a, b, c) = second_derivative(|v| body!(vec![v]), x[0]);
            fl(&[a, b, c])
        }
        "third_derivative" => {
            let (a, b, c, d) = third_derivative(|v| body!(vec![v]), x[0]);
            fl(&[a, b, c, d])
        }
        "second_partial_derivative" => {
            let (a, b, c, d) = second_partial_derivative(|u, v| body!(vec![u, v]), x[0], x[1]);
            fl(&[a, b, c, d])
        }
        "third_partial_derivative" => {
            let t = third_partial_derivative(|u, v, w| body!(vec![u, v, w]), x[0], x[1], x[2]);
            fl(&[t.0, t.1, t.2, t.3, t.4, t.5, t.6, t.7])
        }
        "third_partial_derivative_vec" => {
            let ijk: Vec<usize> = job["ijk"].as_array().unwrap().iter().map(us).collect();
            let t = third_partial_derivative_vec(|v: &[HyperHyperDual64]| body!(v.to_vec()), &x, ijk[0], ijk[1], ijk[2]);
            fl(&[t.0, t.1, t.2, t.3, t.4, t.5, t.6, t.7])
        }
        "gradient" => {
            let (val, g) = gradient(|v: DVector<DualDVec64>| body!(v.iter().cloned().collect()), DVector::from_vec(x.clone()));
            json!([bits(val), fl(g.as_slice())])
        }
        "hessian" => {
            let (val, g, h) = hessian(|v: DVector<Dual2DVec64>| body!(v.iter().cloned().collect()), DVector::from_vec(x.clone()));
            let rows: Vec<J> = (0..h.nrows()).map(|i| fl(&h.row(i).iter().copied().collect::<Vec<_>>())).collect();
            json!([bits(val), fl(g.as_slice()), rows])
        }
        "jacobian" => {
            let rets: Vec<usize> = job["rets"].as_array().unwrap().iter().map(us).collect();
            let (val, jac) = jacobian(
                |v: DVector<DualDVec64>| {
                    let regs = run(ops, with_consts(v.iter().cloned().collect(), &consts));
                    reprs = regs.iter().map(|r| r.to_string()).collect();
                    getters = regs.iter().map(|r| r.cb()).collect();
                    DVector::from_vec(rets.iter().map(|i| regs[*i].clone()).collect())
                },
                DVector::from_vec(x.clone()),
            );
            let jac: DMatrix<f64> = jac;
            let rows: Vec<J> = (0..jac.nrows()).map(|i| fl(&jac.row(i).iter().copied().collect::<Vec<_>>())).collect();
            json!([fl(val.as_slice()), rows])
        }
        "partial_hessian" => {
            let y: Vec<f64> = job["y"].as_array().expect("y").iter().map(f).collect();
            let (val, fx, fy, fxy) = partial_hessian(
                |u: DVector<HyperDualDVec64>, v: DVector<HyperDualDVec64>| body!(u.iter().cloned().chain(v.iter().cloned()).collect()),
                DVector::from_vec(x.clone()),
                DVector::from_vec(y),
            );
            let rows: Vec<J> = (0..fxy.nrows()).map(|i| fl(&fxy.row(i).iter().copied().collect::<Vec<_>>())).collect();
            json!([bits(val), fl(fx.as_slice()), fl(fy.as_slice()), rows])
        }
        other => panic!("twin: unknown driver {other}"),
    };
    json!({"result": result, "reprs": reprs, "getters": getters})
}

fn main() {
    std::panic::set_hook(Box::new(|_| {}));
    let path = std::env::args().nth(1).expect("usage: c17-twin jobs.json");
    let jobs: J = serde_json::from_str(&std::fs::read_to_string(&path).expect("read jobs")).expect("parse jobs");
    let out: Vec<J> = jobs
        .as_array()
        .expect("jobs must be a list")
        .iter()
        .map(|job| {
            // a panic inside num-dual (e.g. an arithmetic overflow check) is a result, not a crash of the model
            let r = std::panic::catch_unwind(std::panic::AssertUnwindSafe(|| match job["kind"].as_str().expect("kind") {
                "scalar" => json!({"regs": scalar_job(job)}),
                "driver" => driver_job(job),
                other => panic!("twin: unknown job kind {other}"),
            }));
            match r {
                Ok(v) => v,
                Err(p) => {
                    let msg = p.downcast_ref::<String>().cloned().or_else(|| p.downcast_ref::<&str>().map(|s| s.to_string())).unwrap_or_default();
                    if msg.starts_with("twin:") {
                        eprintln!("{msg}");
                        std::process::exit(3);
                    }
                    json!({"panicked": msg})
                }
            }
        })
        .collect();
    println!("{}", serde_json::to_string(&out).unwrap());
}
