#!/usr/bin/env python3
"""Conformance tier of the C17 simulation: generated client programs executed operation by operation on
the Python classes of the extension module and on the reference model (the Rust twin, sim_py/twin), compared
after every step - the fault-free configuration underneath the callback-fault tier (c17_sim.py).

  c17_conf.py emit --seed S --tier T --out jobs.json          (needs no module; pure function of S, T)
  c17_conf.py run  --jobs jobs.json --ref ref.json --out res.json   (needs `import num_dual`)

Comparison is bit for bit: every part of every register through the getters (floats as IEEE bit
patterns, NaN equal to NaN), every repr() against the Rust Display text, every driver result.
The only tolerance: matrix-valued getters of vector classes may hand out rows of columns or columns of rows (an
API choice C17 does not fix); vector-valued getters are compared entry by entry.
"""
import argparse
import json
import math
import struct
import sys
import time


def fbits(x):
    """IEEE bit pattern; every NaN is written "nan" (sign and payload of a NaN are not defined by IEEE 754 and
    differ between two builds of the same code, e.g. debug module vs optimised reference)"""
    x = float(x)
    return "nan" if x != x else struct.pack(">d", x).hex()


class Splitmix:
    def __init__(self, seed):
        self.s = (seed ^ 0x9E3779B97F4A7C15) & 0xFFFFFFFFFFFFFFFF

    def next(self):
        self.s = (self.s + 0x9E3779B97F4A7C15) & 0xFFFFFFFFFFFFFFFF
        z = self.s
        z = ((z ^ (z >> 30)) * 0xBF58476D1CE4E5B9) & 0xFFFFFFFFFFFFFFFF
        z = ((z ^ (z >> 27)) * 0x94D049BB133111EB) & 0xFFFFFFFFFFFFFFFF
        return z ^ (z >> 31)

    def below(self, n):
        return self.next() % n

    def unit(self):
        return (self.next() >> 11) / float(1 << 53)

    def pick(self, xs):
        return xs[self.below(len(xs))]


CLASSES = {"Dual64": 2, "Dual2_64": 3, "Dual3_64": 4, "HyperDual64": 4, "HyperHyperDual64": 8,
           "Dual2Dual64": 6, "Dual3Dual64": 8, "HyperDualDual64": 8}

# name -> (real-part function for generation guidance only, domain predicate on the real operand)
UNARY = {
    "neg": (lambda x: -x, lambda x: True),
    "recip": (lambda x: 1 / x, lambda x: abs(x) > 0.05),
    "sqrt": (math.sqrt, lambda x: x > 0.01),
    "cbrt": (lambda x: math.copysign(abs(x) ** (1 / 3), x), lambda x: abs(x) > 0.01),
    "exp": (math.exp, lambda x: abs(x) < 8),
    "exp2": (lambda x: 2.0 ** x, lambda x: abs(x) < 8),
    "expm1": (math.expm1, lambda x: abs(x) < 8),
    "log": (math.log, lambda x: x > 0.01),
    "log2": (math.log2, lambda x: x > 0.01),
    "log10": (math.log10, lambda x: x > 0.01),
    "log1p": (math.log1p, lambda x: x > -0.9),
    "sin": (math.sin, lambda x: abs(x) < 50),
    "cos": (math.cos, lambda x: abs(x) < 50),
    "tan": (math.tan, lambda x: abs(math.cos(x)) > 0.1 and abs(x) < 50),
    "sin_cos_0": (math.sin, lambda x: abs(x) < 50),
    "sin_cos_1": (math.cos, lambda x: abs(x) < 50),
    "arcsin": (math.asin, lambda x: abs(x) < 0.9),
    "arccos": (math.acos, lambda x: abs(x) < 0.9),
    "arctan": (math.atan, lambda x: True),
    "sinh": (math.sinh, lambda x: abs(x) < 8),
    "cosh": (math.cosh, lambda x: abs(x) < 8),
    "tanh": (math.tanh, lambda x: abs(x) < 300),  # num-dual's tanh is sinh/cosh: NaN beyond |x| ~ 710
    "arcsinh": (math.asinh, lambda x: True),
    "arccosh": (math.acosh, lambda x: x > 1.1),
    "arctanh": (math.atanh, lambda x: abs(x) < 0.9),
    "sph_j0": (lambda x: math.sin(x) / x, lambda x: 0.05 < abs(x) < 50),
    "sph_j1": (lambda x: (math.sin(x) - x * math.cos(x)) / x ** 2, lambda x: 0.05 < abs(x) < 50),
    "sph_j2": (lambda x: ((3 - x * x) * math.sin(x) - 3 * x * math.cos(x)) / x ** 3, lambda x: 0.05 < abs(x) < 50),
}
CONSTS = [0.5, 1.5, 2.0, -0.75, 3.0, 0.1, -2.5, 7.0, 1.0]
# exponents of x ** c / powf: whole values (routed to powi by some implementations), and every value a "fast path"
# might single out: the roots (1/2, 1/3, 1/4 and their multiples and negatives), neighbours of 1/3 and 2, tiny and
# irrational ones
FLOAT_EXPONENTS = [0.5, 1.5, 2.0, 2.5, -1.5, 3.0, 0.0, 1.0, 4.0, 5.0, 6.0, 7.0, 9.0, 10.0, 12.0, 33.0, -2.0, -3.0, -7.0, 6.5,
                   1.0 / 3.0, 2.0 / 3.0, -1.0 / 3.0, 4.0 / 3.0, 0.25, 0.75, -0.5, -0.25, -1.0, 0.1, 0.2, 1.0 / 7.0, 0.3333333333333333, 0.33333333333333337,
                   0.3333333333333332, 2.0000000000000004, 1.9999999999999998, math.pi, math.e, 1e-3, 1e-9, -1e-9, 0.125, 1.25]


def gen_ops(rng, re, n_ops, allow_float_lhs=True, allow_from_re=False):
    """append n_ops operations over the register file whose (approximate) real parts are in `re`"""
    ops = []
    for _ in range(n_ops):
        bound = lambda v: math.isfinite(v) and abs(v) < 1e6
        for _attempt in range(40):
            kind = rng.below(11)
            a = rng.below(len(re))
            x = re[a]
            op, val = None, None
            try:
                if kind <= 2:
                    name = rng.pick(sorted(UNARY))
                    fn, dom = UNARY[name]
                    if dom(x):
                        op, val = {"op": name, "a": a}, fn(x)
                elif kind == 3:
                    b = rng.below(len(re))
                    name = rng.pick(["add", "sub", "mul", "div"])
                    if name != "div" or abs(re[b]) > 0.05:
                        val = {"add": x + re[b], "sub": x - re[b], "mul": x * re[b], "div": x / re[b] if re[b] else 0}[name]
                        op = {"op": name, "a": a, "b": b}
                        if rng.below(4) == 0:
                            op["inplace"] = True  # written as  y = x; y += b  (x must stay what it was: registers are values)
                elif kind == 4:
                    c = rng.pick(CONSTS)
                    name = rng.pick(["add_f", "sub_f", "mul_f", "div_f"])
                    val = {"add_f": x + c, "sub_f": x - c, "mul_f": x * c, "div_f": x / c}[name]
                    op = {"op": name, "a": a, "c": c}
                    if rng.below(4) == 0:
                        op["inplace"] = True
                elif kind == 5 and allow_float_lhs:
                    c = rng.pick(CONSTS)
                    name = rng.pick(["radd_f", "rsub_f", "rmul_f", "rdiv_f"])
                    if name != "rdiv_f" or abs(x) > 0.05:
                        val = {"radd_f": c + x, "rsub_f": c - x, "rmul_f": c * x, "rdiv_f": c / x if x else 0}[name]
                        op = {"op": name, "a": a, "c": c}
                elif kind == 6:
                    n = rng.pick([-3, -2, -1, 0, 1, 2, 3, 4, 5])
                    name = rng.pick(["powi", "pow_i"])
                    if abs(x) > 0.05 and abs(x) < 20:
                        op, val = {"op": name, "a": a, "n": n}, x ** n
                        if name == "pow_i" and rng.below(4) == 0:
                            op["inplace"] = True
                elif kind == 7:
                    c = rng.pick(FLOAT_EXPONENTS)
                    name = rng.pick(["powf", "pow_f", "pow_f"])
                    if 0.05 < x < 20 and abs(c * math.log(x)) < 12:
                        op, val = {"op": name, "a": a, "c": c}, x ** c
                        if name == "pow_f" and rng.below(5) == 0:
                            op["inplace"] = True
                elif kind == 8:
                    b = rng.below(len(re))
                    name = rng.pick(["powd", "pow_d"])
                    if 0.05 < x < 10 and abs(re[b]) < 4:
                        op, val = {"op": name, "a": a, "b": b}, x ** re[b]
                elif kind == 10 and allow_from_re:
                    c = rng.pick(CONSTS)
                    op, val = {"op": "from_re", "a": a, "c": c}, c
                elif kind == 9:
                    if rng.below(2):
                        c = rng.pick([2.0, 10.0, 2.5, 0.5])
                        if x > 0.01:
                            op, val = {"op": "log_base", "a": a, "c": c}, math.log(x) / math.log(c)
                    else:
                        b, d = rng.below(len(re)), rng.below(len(re))
                        op, val = {"op": "mul_add", "a": a, "b": b, "d": d}, x * re[b] + re[d]
            except (ValueError, OverflowError, ZeroDivisionError):
                op = None
            if op is not None and bound(val):
                ops.append(op)
                re.append(val)
                break
        else:
            ops.append({"op": "add_f", "a": 0, "c": 1.0})
            re.append(re[0] + 1.0)
    return ops


def composite_tail(rng, re, n_vars):
    """r = f(u) * g(v) (+ h(u * v)) with u, v dense combinations of all variables: every factor carries a dense
    gradient and a second-derivative part, which is what makes Hessians and mixed parts non-trivial (and, in
    floating point, not bitwise symmetric)"""
    ops = []

    def emit_op(op, val):
        ops.append(op)
        re.append(val)
        return len(re) - 1

    def dense(kind):
        acc = 0
        for i in range(1, n_vars):
            if kind == "sum":
                c = rng.pick([0.5, 1.5, -0.75, 2.0])
                t = emit_op({"op": "mul_f", "a": i, "c": c}, re[i] * c)
                acc = emit_op({"op": "add", "a": acc, "b": t}, re[acc] + re[t])
            else:
                acc = emit_op({"op": "mul", "a": acc, "b": i}, re[acc] * re[i]) if i % 2 else emit_op({"op": "add", "a": acc, "b": i}, re[acc] + re[i])
        return acc

    u, v = dense("sum"), dense("prod")
    safe = ["sin", "cos", "tanh", "arctan", "arcsinh"]
    fu = rng.pick(safe)
    a = emit_op({"op": fu, "a": u}, UNARY[fu][0](re[u]))
    if abs(re[v]) < 6:
        b = emit_op({"op": "exp", "a": v}, math.exp(re[v]))
    else:
        b = emit_op({"op": "arctan", "a": v}, math.atan(re[v]))
    r = emit_op({"op": "mul", "a": a, "b": b}, re[a] * re[b])
    if rng.below(2):
        w = emit_op({"op": "mul", "a": u, "b": v}, re[u] * re[v])
        h = emit_op({"op": "tanh" if abs(re[w]) < 300 else "arctan", "a": w}, math.tanh(re[w]) if abs(re[w]) < 300 else math.atan(re[w]))
        r = emit_op({"op": "add", "a": r, "b": h}, re[r] + re[h])
    return ops


def point(rng, n):
    return [round(0.3 + 1.7 * rng.unit(), 6) * rng.pick([1.0, 1.0, 1.0, -1.0]) for _ in range(n)]


ARRAY_CLASSES = ["Dual64", "Dual2_64", "Dual3_64", "HyperDual64", "HyperHyperDual64"]


def emit_array_jobs(rng, tier):
    """numpy arrays as operands of the four operators: x (op) array and array (op) x, for float arrays and for
    object arrays of dual numbers.  For the reference model each array operation is expanded into the
    elementwise scalar operations; the Python side performs it as ONE array operation and, afterwards, also
    checks that every operand array still holds what it held before (registers are values: an operation never
    changes an existing register)."""
    jobs = []
    for cname in ARRAY_CLASSES:
        nparts = CLASSES[cname]
        for _ in range(6 if tier == "quick" else 1000):
            n_in = 3 + rng.below(3)
            inputs, re = [], []
            for _i in range(n_in):
                parts = [round(-2 + 4 * rng.unit(), 5) for _ in range(nparts)]
                parts[0] = round(0.4 + 1.5 * rng.unit(), 5)
                inputs.append(parts)
                re.append(parts[0])
            ops = []
            nreg = n_in
            arrays, steps = [], []
            k = 2 + rng.below(n_in - 1)
            obj_elems = [rng.below(n_in) for _ in range(k)]
            arrays.append({"dtype": "object", "elems": obj_elems, "shape": [k]})
            flt = [rng.pick(CONSTS) for _ in range(2 + rng.below(3))]
            shape = [2, 2] if len(flt) == 4 else [len(flt)]
            arrays.append({"dtype": "float", "elems": [fbits(c) for c in flt], "elem_vals": flt, "shape": shape})
            for _s in range(2 + rng.below(3)):
                aid = rng.below(2)
                side = rng.pick(["x_left", "x_right"])
                opn = rng.pick(["add", "sub", "mul", "div"])
                x = rng.below(n_in)
                first = nreg
                arr = arrays[aid]
                for e in (arr["elems"] if aid == 0 else flt):
                    if aid == 0:  # dual (op) dual, operand order as written
                        ops.append({"op": opn, "a": x, "b": e} if side == "x_left" else {"op": opn, "a": e, "b": x})
                    elif side == "x_left":
                        ops.append({"op": opn + "_f", "a": x, "c": e})
                    else:
                        ops.append({"op": "r" + opn + "_f", "a": x, "c": e})
                    nreg += 1
                steps.append({"array": aid, "side": side, "op": opn, "x": x, "first_out": first, "n": nreg - first})
            jobs.append({"kind": "scalar", "class": cname, "inputs": [[fbits(p) for p in ps] for ps in inputs], "ops": bitsify(ops),
                         "array_plan": {"arrays": arrays, "steps": steps}})
    return jobs


def emit(seed, tier, with_numpy=False):
    rng = Splitmix(seed ^ 0xC17)
    jobs = []
    if with_numpy:
        jobs += emit_array_jobs(Splitmix(seed ^ 0xA88A), tier)
    n_scalar = 40 if tier == "quick" else 10000
    for cname, nparts in CLASSES.items():
        for _ in range(n_scalar):
            n_in = 1 + rng.below(3)
            inputs, re = [], []
            for _i in range(n_in):
                parts = [round(-2 + 4 * rng.unit(), 5) for _ in range(nparts)]
                parts[0] = point(rng, 1)[0]
                if rng.below(8) == 0:
                    parts[1 + rng.below(nparts - 1)] = 0.0
                inputs.append(parts)
                re.append(parts[0])
            ops = gen_ops(rng, re, 3 + rng.below(10), allow_from_re=cname in ARRAY_CLASSES)
            jobs.append({"kind": "scalar", "class": cname, "inputs": [[fbits(p) for p in ps] for ps in inputs], "ops": bitsify(ops, Splitmix(rng.next()) if with_numpy else None)})
    # integer exponents outside the i32 range: x ** n must still be the power (the pinned bindings route them to powf).
    # Base 1 and parts chosen so that every part of the result is exact whatever algorithm computes it.
    for n in (2 ** 31, 2 ** 32, 2 ** 32 + 2, -(2 ** 31) - 1, 2 ** 40, -(2 ** 33)):
        for cname, parts in (("Dual64", [1.0, 0.5]), ("Dual2_64", [1.0, 0.0, 0.25]), ("HyperDual64", [1.0, 0.5, 0.0, 0.125]), ("Dual3_64", [1.0, 0.0, 0.0, 2.0])):
            jobs.append({"kind": "scalar", "class": cname, "inputs": [[fbits(v) for v in parts]],
                         "ops": [{"op": "pow_bigint", "a": 0, "n_str": str(n), "c": fbits(float(n))}]})
    for cname, parts in (("Dual64", [1.0009765625, 0.5]), ("Dual2_64", [1.0009765625, 0.5, -0.25]), ("Dual3_64", [1.0009765625, 0.5, 0.25, 1.0]),
                         ("HyperDual64", [0.9990234375, 0.5, 2.0, 0.125]), ("HyperHyperDual64", [1.0009765625, 0.5, 1.0, 2.0, 0.0, 0.25, 0.0, 1.0])):
        for c in (6.0, 7.0, 12.0, 33.0, 1024.0, 2000.0, -2000.0, -5.0):
            for name in ("pow_f", "powf"):
                jobs.append({"kind": "scalar", "class": cname, "inputs": [[fbits(v) for v in parts]], "ops": bitsify([{"op": name, "a": 0, "c": c}])})
    # integer exponents whose coefficient product n(n-1)(n-2) leaves the i32 range: the Rust powi panics in a
    # build with overflow checks (a defect of num-dual against C09, not claimed here); the bindings must do whatever
    # the Rust operation does - here: fail - rather than return something else
    for cname, parts in (("Dual3_64", [1.0009765625, 0.5, 0.25, 1.0]), ("HyperHyperDual64", [1.0009765625, 0.5, 1.0, 2.0, 0.0, 0.25, 0.0, 1.0])):
        for name in ("pow_i", "powi"):
            jobs.append({"kind": "scalar", "class": cname, "inputs": [[fbits(v) for v in parts]], "ops": [{"op": name, "a": 0, "n": 2000}]})
    # value coincidences: the neutral and absorbing constants of every float-operand form (0, -0, 1, -1) against real parts
    # that are exactly 0, -0, 1 or -1 (all other parts non-zero), each followed by recip(), which turns the sign of a
    # zero into +inf / -inf.  A shortcut such as "0 + x is x" or "x * 1 is x" is right except for the sign of a zero.
    for cname, nparts in CLASSES.items():
        for re0 in (0.0, -0.0, 1.0, -1.0):
            parts = [re0] + [0.5 + 0.25 * k for k in range(nparts - 1)]
            ops = []
            for name in ("add_f", "radd_f", "sub_f", "rsub_f", "mul_f", "rmul_f", "div_f"):
                for c in (0.0, -0.0, 1.0, -1.0):
                    if name == "div_f" and c == 0.0:
                        continue
                    ops.append({"op": name, "a": 0, "c": c})
            n_first = len(ops)
            for k in range(n_first):
                ops.append({"op": "recip", "a": 1 + k})
            ops.append({"op": "neg", "a": 0})
            ops.append({"op": "add", "a": 0, "b": 0})
            ops.append({"op": "sub", "a": 0, "b": 0})
            ops.append({"op": "pow_i", "a": 0, "n": 1})
            ops.append({"op": "pow_i", "a": 0, "n": 0})
            ops.append({"op": "pow_f", "a": 0, "c": 1.0})
            jobs.append({"kind": "scalar", "class": cname, "inputs": [[fbits(p) for p in parts]], "ops": bitsify(ops)})
    # every named function at the points where an implementation might take a shortcut: 0, -0, 1, -1, 1/2, 2 - inside or
    # outside its domain (NaN and infinities must then be the Rust operation's NaN and infinities), followed by
    # x * result so that every derivative part is used once more
    for cname, nparts in CLASSES.items():
        for re0 in (0.0, -0.0, 1.0, -1.0, 0.5, 2.0):
            parts = [re0] + [0.75 - 0.5 * k for k in range(nparts - 1)]
            ops = [{"op": name, "a": 0} for name in sorted(UNARY)]
            n_first = len(ops)
            for k in range(n_first):
                ops.append({"op": "mul", "a": 0, "b": 1 + k})
            for n in (0, 1, 2, 3, -1, -2):
                ops.append({"op": "pow_i", "a": 0, "n": n})
                ops.append({"op": "powi", "a": 0, "n": n})
            for c in (0.0, 1.0, 2.0, 0.5, -1.0, 3.0):
                ops.append({"op": "pow_f", "a": 0, "c": c})
                ops.append({"op": "powf", "a": 0, "c": c})
            ops.append({"op": "pow_d", "a": 0, "b": 0})
            jobs.append({"kind": "scalar", "class": cname, "inputs": [[fbits(p) for p in parts]], "ops": bitsify(ops)})
    # the same coincidence inside a driver: sum(v) starts from the int 0, 0 + v[0] is the reflected addition
    for n in (1, 2, 10, 11):
        for re0 in (-0.0, 0.0):
            x = [re0] + [0.5 * (i + 1) for i in range(n - 1)]
            ops = [{"op": "radd_f", "a": 0, "c": 0.0}, {"op": "recip", "a": n}]
            jobs.append({"kind": "driver", "driver": "gradient", "x": [fbits(v) for v in x], "ops": bitsify(ops)})
    # rarely used operand kinds on either side of an operator and as exponents: int subclasses, float subclasses, objects
    # that only define __float__ or __index__, Decimal.  The bindings may refuse them (a TypeError is tolerated); if they
    # return a value it must be the Rust operation on the float the object converts to.
    for cname, nparts in CLASSES.items():
        parts = [1.25] + [0.5 + 0.25 * k for k in range(nparts - 1)]
        for kind, c in (("int_enum", 3.0), ("float_subclass", 1.5), ("has_float", 2.5), ("has_index", 2.0), ("decimal", 0.5), ("bool", 1.0), ("fraction", 0.75)):
            for name in ("add_f", "radd_f", "sub_f", "rsub_f", "mul_f", "rmul_f", "div_f", "rdiv_f", "pow_f"):
                op = {"op": name, "a": 0, "c": fbits(c), "c_val": c, "ckind": kind}
                jobs.append({"kind": "scalar", "class": cname, "inputs": [[fbits(p) for p in parts]], "ops": [op], "tolerate_raise": True})
    # callables that hand back an input unchanged, or the same object twice
    for drv, nin in (("first_derivative", 1), ("second_derivative", 1), ("third_derivative", 1), ("second_partial_derivative", 2), ("third_partial_derivative", 3),
                     ("gradient", 1), ("gradient", 3), ("gradient", 11), ("hessian", 2), ("hessian", 11), ("third_partial_derivative_vec", 3), ("partial_hessian", 2), ("jacobian", 2), ("jacobian", 3)):
        x = [0.75 + 0.5 * i for i in range(nin)]
        job = {"kind": "driver", "driver": drv, "x": [fbits(v) for v in x], "ops": []}
        if drv == "partial_hessian":
            job["x"], job["y"] = [fbits(x[0])], [fbits(x[1])]
        if drv == "jacobian":
            job["rets"] = [nin - 1, nin - 1, 0]
        if drv == "third_partial_derivative_vec":
            job["ijk"] = [2, 2, 0]
        jobs.append(job)
    # lengths beyond the twelve the property names, for the two drivers that accept them (blocked or chunked evaluation
    # paths would start somewhere): the callable must still see one call with n seeded numbers
    for drv, n in (("gradient", 16), ("gradient", 33), ("gradient", 64), ("hessian", 16), ("hessian", 33)):
        x = point(rng, n)
        re = list(x)
        ops = [{"op": "neg", "a": 0}]
        re.append(-re[0])
        for i in range(n):
            ops.append({"op": "mul", "a": len(re) - 1, "b": i} if i % 3 == 0 else {"op": "add", "a": len(re) - 1, "b": i})
            re.append(0.0)
        jobs.append({"kind": "driver", "driver": drv, "x": [fbits(v) for v in x], "ops": bitsify(ops)})
        jobs.append({"kind": "driver", "driver": drv, "x": [fbits(v) for v in x], "ops": bitsify([{"op": "neg", "a": 0}])})
    # gradual underflow inside a driver: a callable whose intermediates are subnormal must see them exactly as the Rust
    # closure does (a driver that switches the floating-point environment - flush-to-zero - while the callable runs would not)
    tiny = [{"op": "mul_f", "a": 0, "c": 1e-300}, {"op": "mul_f", "a": -1, "c": 1e-10}, {"op": "add", "a": -1, "b": -1}, {"op": "mul_f", "a": -1, "c": 0.5}]
    for drv, nin in (("first_derivative", 1), ("second_derivative", 1), ("third_derivative", 1), ("second_partial_derivative", 2), ("third_partial_derivative", 3),
                     ("gradient", 2), ("gradient", 11), ("hessian", 2), ("hessian", 11), ("jacobian", 2), ("third_partial_derivative_vec", 3), ("partial_hessian", 2), ("partial_hessian", 6)):
        x = [1.0 + 0.5 * i for i in range(nin)]
        ops, nreg = [], nin
        for t in tiny:
            o = dict(t)
            for k in ("a", "b"):
                if k in o and o[k] < 0:
                    o[k] = nreg - 1
            ops.append(o)
            nreg += 1
        for i in range(1, nin):  # use every variable
            ops.append({"op": "mul", "a": nreg - 1, "b": i})
            nreg += 1
        job = {"kind": "driver", "driver": drv, "x": [fbits(v) for v in x], "ops": bitsify(ops)}
        if drv == "partial_hessian":
            half = nin // 2
            job["x"], job["y"] = [fbits(v) for v in x[:half]], [fbits(v) for v in x[half:]]
            if nin == 6:
                job["x"], job["y"] = [fbits(v) for v in x[:1]], [fbits(v) for v in x[1:]]
        if drv == "jacobian":
            job["rets"] = [nreg - 1, nreg - 2]
        if drv == "third_partial_derivative_vec":
            job["ijk"] = [0, 1, 2]
        jobs.append(job)
        # subnormal *inputs*
        sub = {"kind": "driver", "driver": drv, "x": [fbits(2.0 ** -1060 * (i + 1)) for i in range(nin)], "ops": bitsify([{"op": "add", "a": 0, "b": nin - 1}, {"op": "mul_f", "a": nin, "c": 0.5}])}
        for k in ("y", "rets", "ijk"):
            if k in job:
                sub[k] = job[k]
        if drv == "partial_hessian":
            sub["x"], sub["y"] = sub["x"][:len(job["x"])], sub["x"][len(job["x"]):]
        if drv == "jacobian":
            sub["rets"] = [nin, nin + 1]
        jobs.append(sub)
    reps = 3 if tier == "quick" else 300
    for _ in range(reps):
        for drv, nin in (("first_derivative", 1), ("second_derivative", 1), ("third_derivative", 1), ("second_partial_derivative", 2), ("third_partial_derivative", 3)):
            x = point(rng, nin)
            re = list(x)
            ops = gen_ops(rng, re, 3 + rng.below(8))
            jobs.append({"kind": "driver", "driver": drv, "x": [fbits(v) for v in x], "ops": bitsify(ops)})
        for n in range(1, 13):
            for drv in ("gradient", "hessian", "jacobian", "third_partial_derivative_vec"):
                if drv == "third_partial_derivative_vec" and n < 2:
                    continue
                x = point(rng, n)
                re = list(x)
                ops = gen_ops(rng, re, n + 2 + rng.below(8))
                if rng.below(2):
                    # make sure every variable is used: fold all inputs into a final sum of products
                    for i in range(n):
                        ops.append({"op": "mul", "a": len(re) - 1, "b": i} if i % 3 == 0 else {"op": "add", "a": len(re) - 1, "b": i})
                        re.append(0.0)
                else:
                    ops += composite_tail(rng, re, n)
                job = {"kind": "driver", "driver": drv, "x": [fbits(v) for v in x], "ops": bitsify(ops)}
                if n % 3 == 2 or n >= 11:
                    job["list_use"] = True
                if drv == "jacobian":
                    nreg = n + len(ops)
                    job["rets"] = sorted({nreg - 1, rng.below(nreg), rng.below(nreg)})
                    # one callable in four hands its results back in a tuple: the bindings document "must return a
                    # list", so a TypeError is accepted; a value must be the Rust jacobian
                    if rng.below(4) == 0:
                        job["ret_tuple"] = True
                if drv == "third_partial_derivative_vec":
                    job["ijk"] = [rng.below(n), rng.below(n), rng.below(n)]
                    if n <= 4:  # every pattern of coinciding indices, explicitly
                        for ijk in ((0, 0, 1), (1, 0, 0), (0, 1, 0), (n - 1, n - 1, n - 1), (0, 1, n - 1)):
                            jobs.append(dict(job, ijk=list(ijk)))
                jobs.append(job)
        for m, n in [(m, n) for m in range(1, 7) for n in range(1, 7)]:
            x, y = point(rng, m), point(rng, n)
            re = list(x) + list(y)
            ops = gen_ops(rng, re, 3 + rng.below(6))
            if rng.below(2):
                for i in range(m + n):
                    ops.append({"op": "mul", "a": len(re) - 1, "b": i} if i % 2 == 0 else {"op": "add", "a": len(re) - 1, "b": i})
                    re.append(0.0)
            else:
                ops += composite_tail(rng, re, m + n)
            jobs.append({"kind": "driver", "driver": "partial_hessian", "x": [fbits(v) for v in x], "y": [fbits(v) for v in y], "ops": bitsify(ops)})
            if (m + n) % 3 == 0:
                jobs[-1]["list_use"] = True
    return jobs


CKINDS = ["float", "float", "int", "bool", "fraction", "np_float64", "np_float32", "np_int64"]


def bitsify(ops, rng=None):
    """floats travel as bit patterns; scalar-operand operations also get an operand *kind* (a Python object that
    converts to exactly this float: int, bool, Fraction, numpy scalars) - the reference sees only the float"""
    out = []
    for op in ops:
        o = dict(op)
        if "c" in o:
            c = o["c"]
            o["c_val"] = c
            o["c"] = fbits(c)
            if rng is not None and o["op"] in ("add_f", "sub_f", "mul_f", "div_f", "radd_f", "rsub_f", "rmul_f", "rdiv_f"):
                kind = rng.pick(CKINDS)
                integral = float(c).is_integer() and abs(c) < 2 ** 31
                f32_exact = struct.unpack(">f", struct.pack(">f", c))[0] == c
                if (kind in ("int", "np_int64") and not integral) or (kind == "bool" and c not in (0.0, 1.0)) or (kind == "np_float32" and not f32_exact):
                    kind = "float"
                o["ckind"] = kind
        out.append(o)
    return out


# ----------------------------------------------------------------------------------------------
# execution against the Python module
# ----------------------------------------------------------------------------------------------
def unbits(h):
    return float("nan") if h == "nan" else struct.unpack(">d", bytes.fromhex(h))[0]


def as_kind(c, kind):
    """a Python object of the given kind whose float value is exactly c"""
    if kind == "int":
        return int(c)
    if kind == "bool":
        return bool(c)
    if kind == "fraction":
        from fractions import Fraction
        return Fraction(c)
    if kind == "int_enum":
        import enum
        return enum.IntEnum("K", {"V": int(c)}).V
    if kind == "float_subclass":
        return type("F", (float,), {})(c)
    if kind == "has_float":
        return type("HasFloat", (), {"__float__": lambda self: c})()
    if kind == "has_index":
        return type("HasIndex", (), {"__index__": lambda self: int(c)})()
    if kind == "decimal":
        from decimal import Decimal
        return Decimal(c)
    import numpy as np
    return {"np_float64": np.float64, "np_float32": np.float32, "np_int64": np.int64}[kind](c)


def py_step(op, r):
    name = op["op"]
    a = r[op["a"]]
    b = r[op["b"]] if "b" in op else None
    c = unbits(op["c"]) if "c" in op else None
    if c is not None and op.get("ckind", "float") != "float":
        c = as_kind(c, op["ckind"])
    if op.get("inplace"):
        # augmented assignment through a second name for the same object; the Rust program is  let mut y = x.clone(); y += b;
        y = a
        if name in ("add", "add_f"):
            y += b if name == "add" else c
        elif name in ("sub", "sub_f"):
            y -= b if name == "sub" else c
        elif name in ("mul", "mul_f"):
            y *= b if name == "mul" else c
        elif name in ("div", "div_f"):
            y /= b if name == "div" else c
        elif name == "pow_i":
            y **= int(op["n"])
        elif name == "pow_f":
            y **= c
        else:
            raise SystemExit(f"harness error: no in-place form of {name}")
        return y
    if name == "add": return a + b
    if name == "sub": return a - b
    if name == "mul": return a * b
    if name == "div": return a / b
    if name == "add_f": return a + c
    if name == "sub_f": return a - c
    if name == "mul_f": return a * c
    if name == "div_f": return a / c
    if name == "radd_f": return c + a
    if name == "rsub_f": return c - a
    if name == "rmul_f": return c * a
    if name == "rdiv_f": return c / a
    if name == "neg": return -a
    if name == "from_re": return type(a).from_re(c)
    if name == "pow_i": return a ** int(op["n"])
    if name == "pow_bigint": return a ** int(op["n_str"])
    if name == "powi": return a.powi(int(op["n"]))
    if name == "pow_f": return a ** c
    if name == "powf": return a.powf(c)
    if name == "pow_d": return a ** b
    if name == "powd": return a.powd(b)
    if name == "log_base": return a.log_base(c)
    if name == "sin_cos_0": return a.sin_cos()[0]
    if name == "sin_cos_1": return a.sin_cos()[1]
    if name == "mul_add": return a.mul_add(b, r[op["d"]])
    return getattr(a, name)()


def flat(obj):
    if obj is None:
        return []
    if isinstance(obj, float):
        return [obj]
    if isinstance(obj, int):
        return [float(obj)]
    if isinstance(obj, (tuple, list)):
        out = []
        for x in obj:
            out += flat(x)
        return out
    out = flat(obj.value) + flat(obj.first_derivative)
    for g in ("second_derivative", "third_derivative"):
        if hasattr(obj, g):
            out += flat(getattr(obj, g))
    return out


def getter_view(obj):
    """value and, where the class has them, the derivative getters entry by entry, in the order handed out (None = absent part)"""
    def ms(v):
        if v is None:
            return None
        if isinstance(v, tuple) and all(x is None for x in v):
            return None
        return [fbits(x) for x in flat(v)]
    out = {"value": fbits(obj.value)}
    if hasattr(obj, "first_derivative"):
        out["first"] = ms(obj.first_derivative)
    if hasattr(obj, "second_derivative"):
        out["second"] = ms(obj.second_derivative)
    return out


def getter_matches(py, ref):
    """py: what getter_view saw (a bit pattern, None, or a flat list); ref: the twin's view (bit pattern, None, or
    {"r", "c", "rm"}: entries row by row).  Vectors: same entries in the same order.  Matrices: rows of columns or
    columns of rows - nothing else."""
    if ref is None or py is None or not isinstance(ref, dict):
        return py == ref
    rm = ref["rm"]
    if py == rm:
        return True
    r, c = ref["r"], ref["c"]
    if r > 1 and c > 1:
        cm = [rm[i * c + j] for j in range(c) for i in range(r)]
        return py == cm
    return False


def same_bits(py_floats, ref_hex):
    if len(py_floats) != len(ref_hex):
        return False
    for x, h in zip(py_floats, ref_hex):
        y = unbits(h)
        if fbits(x) != h and not (math.isnan(x) and math.isnan(y)):
            return False
    return True


def shape_of(v):
    """nesting structure of a driver result: lengths of the lists/tuples, leaves as 0"""
    if isinstance(v, (list, tuple)):
        return [shape_of(x) for x in v]
    return 0


def flat_hex(v):
    if isinstance(v, str):
        return [v]
    out = []
    for x in v:
        out += flat_hex(x)
    return out


def build_scalar_inputs(nd, job):
    cls = getattr(nd, job["class"])
    regs = []
    for parts in job["inputs"]:
        p = [unbits(h) for h in parts]
        if job["class"] in ("Dual2Dual64", "Dual3Dual64", "HyperDualDual64"):
            regs.append(cls(*[nd.Dual64(p[i], p[i + 1]) for i in range(0, len(p), 2)]))
        else:
            regs.append(cls(*p))
    return regs


def call_python_driver(nd, job, seen):
    drv = job["driver"]
    x = [unbits(h) for h in job["x"]]

    def body(*args):
        regs = []
        if job.get("list_use"):
            # the callable treats the vector it is handed as what the Rust closure gets - a vector of its own that it may
            # copy, extend and assign into (here: in ways that leave it as it was).  Every driver hands out lists.
            for a in args:
                if not isinstance(a, (int, float)) and hasattr(a, "__len__") and len(a) > 0:
                    a.append(a[0])
                    a.pop()
                    a[0] = a[0]
                    a[:] = a.copy()
        for a in args:
            regs += list(a) if isinstance(a, (list, tuple)) else [a]
        for op in job["ops"]:
            regs.append(py_step(op, regs))
        seen["reprs"] = [repr(r) for r in regs]
        seen["getters"] = [getter_view(r) for r in regs]
        if drv == "jacobian":
            return tuple(regs[i] for i in job["rets"]) if job.get("ret_tuple") else [regs[i] for i in job["rets"]]
        return regs[-1]

    seen["body"] = body
    if drv in ("first_derivative", "second_derivative", "third_derivative"):
        return getattr(nd, drv)(body, x[0])
    if drv == "second_partial_derivative":
        return nd.second_partial_derivative(body, x[0], x[1])
    if drv == "third_partial_derivative":
        return nd.third_partial_derivative(body, x[0], x[1], x[2])
    if drv == "third_partial_derivative_vec":
        return nd.third_partial_derivative_vec(body, x, *job["ijk"])
    if drv == "partial_hessian":
        return nd.partial_hessian(body, x, [unbits(h) for h in job["y"]])
    return getattr(nd, drv)(body, x)


def python_raises(nd, job):
    try:
        if job["kind"] == "scalar":
            regs = build_scalar_inputs(nd, job)
            for op in job["ops"]:
                regs.append(py_step(op, regs))
        else:
            call_python_driver(nd, job, {})
    except BaseException as e:  # noqa: BLE001
        if isinstance(e, (SystemExit, MemoryError, KeyboardInterrupt)):
            raise
        return True
    return False


def run_job(nd, job, ref):
    """returns None or a mismatch description"""
    if "panicked" in ref:
        # the Rust operation itself panics on this program (an overflow check, say): the Python side must fail too
        if python_raises(nd, job):
            return None
        return {"at": -1, "what": "the Rust operation panics on this program but the Python side returned a value", "rust_panic": ref["panicked"][:200]}
    if job["kind"] == "scalar":
        regs = build_scalar_inputs(nd, job)
        n_in = len(regs)
        if "array_plan" in job:
            m = run_array_plan(job, regs, ref)
            if m is not None:
                return m
        born = [[fbits(v) for v in flat(r)] for r in regs]  # parts of every register when it was created
        for k, op in enumerate(job["ops"] if "array_plan" not in job else []):
            try:
                regs.append(py_step(op, regs))
                born.append([fbits(v) for v in flat(regs[-1])])
            except BaseException as e:  # noqa: BLE001 - includes pyo3's PanicException
                if isinstance(e, (SystemExit, MemoryError, KeyboardInterrupt)):
                    raise
                if job.get("tolerate_raise") and isinstance(e, TypeError):
                    return None  # a rarely used operand kind the bindings refuse: allowed
                return {"at": n_in + k, "what": f"step {k} ({op['op']})", "python_raised": f"{type(e).__name__}: {str(e)[:200]}",
                        "rust_display": ref["regs"][n_in + k]["repr"]}
        for i, (r, rr) in enumerate(zip(regs, ref["regs"])):
            what = f"input {i}" if i < n_in else f"step {i - n_in} ({job['ops'][i - n_in]['op']})"
            if i < len(born) and [fbits(v) for v in flat(r)] != born[i]:
                users = [f"step {k} ({o['op']}{', in-place form' if o.get('inplace') else ''})" for k, o in enumerate(job["ops"]) if i in (o.get("a"), o.get("b"), o.get("d"))]
                return {"at": i, "what": what + ": the register was changed after it was created - an operation modified its operand (registers are values)",
                        "when_created": [float.hex(unbits(h)) for h in born[i]], "now": [float.hex(x) for x in flat(r)], "used_by": users, "python_repr": repr(r), "rust_display": rr["repr"],
                        "register_changed": True}
            if not same_bits(flat(r), rr["parts"]):
                return {"at": i, "what": what, "python_parts": [float.hex(x) for x in flat(r)], "rust_parts": [float.hex(unbits(h)) for h in rr["parts"]],
                        "python_repr": repr(r), "rust_display": rr["repr"]}
            if repr(r) != rr["repr"]:
                return {"at": i, "what": what + " repr", "python_repr": repr(r), "rust_display": rr["repr"]}
            # what a user sees through print(), str.format and f-strings without a format spec is the same rendering
            for how, text in (("str()", str(r)), ("format()", format(r)), ("f-string", f"{r}"), ("str.format", "{}".format(r))):
                if text != rr["repr"]:
                    return {"at": i, "what": what + f" text through {how}", "python_text": text, "rust_display": rr["repr"]}
        return None
    # driver job: the program is the body of the callback
    drv = job["driver"]
    x = [unbits(h) for h in job["x"]]
    seen = {}

    def call_driver():
        return call_python_driver(nd, job, seen)

    if drv == "jacobian" and len(x) > 10:
        # the pinned bindings reject more than 10 variables (with whatever exception); a tree that supports them
        # must agree with the Rust jacobian like everywhere else
        try:
            res = call_driver()
        except BaseException as e:  # noqa: BLE001
            if isinstance(e, (SystemExit, MemoryError, KeyboardInterrupt)):
                raise
            return None
    try:
        res = call_driver()
    except BaseException as e:  # noqa: BLE001 - includes pyo3's PanicException
        if isinstance(e, (SystemExit, MemoryError, KeyboardInterrupt)):
            raise
        if job.get("ret_tuple") and isinstance(e, TypeError):
            return None  # a tuple where the bindings document a list: refusing it is allowed
        return {"at": -1, "what": f"result of {drv}", "python_raised": f"{type(e).__name__}: {str(e)[:200]}"}
    if not same_bits(flat(res), flat_hex(ref["result"])):
        return {"at": -1, "what": f"result of {drv}", "python": [float.hex(v) for v in flat(res)], "rust": [float.hex(unbits(h)) for h in flat_hex(ref["result"])]}
    if shape_of(res) != shape_of(ref["result"]):
        return {"at": -1, "what": f"result of {drv}: same numbers, different nesting (row lengths)", "python_shape": shape_of(res), "rust_shape": shape_of(ref["result"])}
    for i, (p, r) in enumerate(zip(seen.get("reprs", []), ref["reprs"])):
        if p != r:
            return {"at": i, "what": f"repr of callback register {i}", "python_repr": p, "rust_display": r}
    if drv in ("gradient", "hessian", "jacobian", "partial_hessian"):
        for i, (p, r) in enumerate(zip(seen.get("getters", []), ref.get("getters", []))):
            for k in ("value", "first", "second"):
                if k in p and k in r and not getter_matches(p[k], r[k]):
                    return {"at": i, "what": f"getter {k} of callback register {i} (vectors entry by entry, matrices by rows or by columns)", "python": p[k], "rust": r[k]}
    return None


def run_array_plan(job, regs, ref):
    """perform each planned array operation as one numpy-level operation; results become registers"""
    import operator

    import numpy as np
    plan = job["array_plan"]
    n_in = len(regs)
    arrays = []
    for a in plan["arrays"]:
        if a["dtype"] == "object":
            arr = np.empty(len(a["elems"]), dtype=object)
            for i, e in enumerate(a["elems"]):
                arr[i] = regs[e]
        else:
            arr = np.array([unbits(h) for h in a["elems"]], dtype=float).reshape(a["shape"])
        arrays.append(arr)
    fn = {"add": operator.add, "sub": operator.sub, "mul": operator.mul, "div": operator.truediv}
    for si, st in enumerate(plan["steps"]):
        arr, x = arrays[st["array"]], regs[st["x"]]
        what = f"array step {si}: {'x ' + st['op'] + ' array' if st['side'] == 'x_left' else 'array ' + st['op'] + ' x'} ({plan['arrays'][st['array']]['dtype']} array)"
        try:
            res = fn[st["op"]](x, arr) if st["side"] == "x_left" else fn[st["op"]](arr, x)
            out = list(np.asarray(res, dtype=object).flat)
        except BaseException as e:  # noqa: BLE001
            if isinstance(e, (SystemExit, MemoryError, KeyboardInterrupt)):
                raise
            return {"at": st["first_out"], "what": what, "python_raised": f"{type(e).__name__}: {str(e)[:200]}"}
        if len(out) != st["n"]:
            return {"at": st["first_out"], "what": what, "python": f"{len(out)} elements", "rust": f"{st['n']} elements"}
        for i, r in enumerate(out):
            rr = ref["regs"][st["first_out"] + i]
            if not same_bits(flat(r), rr["parts"]) or repr(r) != rr["repr"]:
                return {"at": st["first_out"] + i, "what": what + f", element {i}", "python_repr": repr(r), "rust_display": rr["repr"],
                        "note": "the reference evaluates every element from the registers as they were created (registers are values)"}
        regs.extend(out)
        # no operation may change an existing register: every operand array must still hold what it was built from
        for ai, (a, arr2) in enumerate(zip(plan["arrays"], arrays)):
            for i, e in enumerate(arr2.flat):
                if a["dtype"] == "object":
                    want = ref["regs"][a["elems"][i]]
                    if not same_bits(flat(e), want["parts"]):
                        return {"at": st["first_out"], "what": what + f": operand array {ai} was modified by the operation (element {i})",
                                "python_repr": repr(e), "rust_display": want["repr"], "operand_changed": True}
                elif fbits(e) != a["elems"][i]:
                    return {"at": st["first_out"], "what": what + f": float operand array {ai} was modified (element {i})", "operand_changed": True}
    return None


def finding_key(job, m):
    """identity of a conformance finding: what fails (class or driver, operation, kind), not which seed or job found it"""
    who = job.get("class") or job.get("driver")
    if m.get("operand_changed"):
        st = next((t for t in job["array_plan"]["steps"] if t["first_out"] == m["at"]), None)
        kind = job["array_plan"]["arrays"][st["array"]]["dtype"] if st else "?"
        return f"conformance:operand_modified:{'x ' + st['op'] + ' array' if st and st['side'] == 'x_left' else 'array op x'}:{kind}_array"
    if m.get("register_changed"):
        return f"conformance:{who}:operand_modified"
    what = m["what"]
    opname = what.split("(")[-1].rstrip(")") if "(" in what and what.startswith("step") else what.split(":")[0]
    return f"conformance:{who}:{opname}"


def truncate_array_job(job, at):
    """keep the array steps up to and including the one that produced register `at`"""
    plan = job["array_plan"]
    n_in = len(job["inputs"])
    keep = [t for t in plan["steps"] if t["first_out"] <= at]
    last = keep[-1]
    return dict(job, ops=job["ops"][: last["first_out"] + last["n"] - n_in], array_plan=dict(plan, steps=keep))


def slice_job(job, upto):
    """dependency slice of a scalar job: keep only the operations register `upto` depends on"""
    n_in = len(job["inputs"])
    need, keep = {upto}, []
    for i in range(upto, n_in - 1, -1):
        if i in need:
            op = job["ops"][i - n_in]
            keep.append(i)
            for k in ("a", "b", "d"):
                if k in op:
                    need.add(op[k])
    keep = sorted(keep)
    remap = {i: i for i in range(n_in)}
    ops = []
    for new, old in enumerate(keep):
        remap[old] = n_in + new
        op = dict(job["ops"][old - n_in])
        for k in ("a", "b", "d"):
            if k in op:
                op[k] = remap[op[k]]
        ops.append(op)
    return dict(job, ops=ops)


def main():
    ap = argparse.ArgumentParser()
    ap.add_argument("mode", choices=["emit", "run"])
    ap.add_argument("--seed", type=int, default=20261002)
    ap.add_argument("--tier", default="quick")
    ap.add_argument("--jobs")
    ap.add_argument("--ref")
    ap.add_argument("--out", required=True)
    ap.add_argument("--numpy", type=int, default=0, help="emit: also generate numpy-array operand programs")
    a = ap.parse_args()
    if a.mode == "emit":
        json.dump(emit(a.seed, a.tier, bool(a.numpy)), open(a.out, "w"))
        return
    import num_dual as nd
    t0 = time.time()
    jobs, refs = json.load(open(a.jobs)), json.load(open(a.ref))
    if len(jobs) != len(refs):
        sys.exit("harness error: reference has a different number of jobs")
    digest = 0xcbf29ce484222325
    stats = {"jobs": 0, "operations": 0, "registers_compared": 0, "by_class": {}, "by_driver": {}, "ops_used": {}}
    mismatches = []
    for ji, (job, ref) in enumerate(zip(jobs, refs)):
        m = run_job(nd, job, ref)
        stats["jobs"] += 1
        stats["operations"] += len(job["ops"])
        stats["registers_compared"] += len(job["ops"]) + len(job.get("inputs", job.get("x", [])))
        if "array_plan" in job:
            stats["array_operand_programs"] = stats.get("array_operand_programs", 0) + 1
            stats["array_operations"] = stats.get("array_operations", 0) + len(job["array_plan"]["steps"])
        key = job.get("class") or job["driver"]
        grp = "by_class" if job["kind"] == "scalar" else "by_driver"
        stats[grp][key] = stats[grp].get(key, 0) + 1
        for op in job["ops"]:
            stats["ops_used"][op["op"]] = stats["ops_used"].get(op["op"], 0) + 1
        for b in json.dumps([ji, m is None], sort_keys=True).encode():
            digest = ((digest ^ b) * 0x100000001b3) & 0xFFFFFFFFFFFFFFFF
        if m is not None and len(mismatches) < 200:
            mismatches.append({"job_index": ji, "job": job, "mismatch": m, "finding_key": finding_key(job, m)})
    json.dump({"digest": f"{digest:016x}", "stats": stats, "mismatch": mismatches[0] if mismatches else None, "mismatches": mismatches, "wall_s": round(time.time() - t0, 3),
               "sample": {"job": jobs[0], "reference_last_register": refs[0]["regs"][-1] if "regs" in refs[0] else refs[0]}}, open(a.out, "w"), indent=1)


if __name__ == "__main__":
    main()
