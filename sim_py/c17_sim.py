#!/usr/bin/env python3
"""Deterministic simulation of the Python driver functions of num-dual over a fault-injecting
callback seam (property C17).  Runs inside an interpreter that can `import num_dual`.

Real code: the extension module built from /repo's working tree (pyo3 glue, the length-dispatch
chains of the ten driver functions, the Rust try_* drivers and all dual arithmetic the callbacks do).
Simulated: the user callable - the only thing a driver calls out to.  A `Probe` wraps the callable,
numbers its invocations, and injects faults according to an explicit plan.

Reference model (what "the corresponding Rust operation returns on the same inputs" means when the
inputs include a callable that can fail): the Rust try_* driver invokes its closure exactly once
and returns the closure's error unchanged, otherwise the derivatives.  Therefore, relative to the
fault-free run R0 of the *same real code* with the same arguments:
   F1  a fault planned for invocation 1 that raises E      ->  the driver raises that very object E
   F2  a fault planned for invocation k >= 2               ->  never fires; outcome is bit-for-bit R0
   F3  (not judged) a wrong-typed return at invocation 1 has no Rust counterpart; it is injected only to
       exercise the error paths of the glue and must not crash the interpreter
   F4  the fault-free run itself returns a value or raises deterministically (same outcome twice)
   F5  after a run in which a fault fired, the fault-free run gives R0 again (a fault leaves nothing behind)
   A2  what the callable hands back stays the callable's: the driver reads the result, it does not take it apart
   A1  what the callable was handed stays what it was: an argument (list) kept by the callable is not changed by
       the driver afterwards, nor by any later driver call (the Rust closure owns its argument)
   R1  a callable that, on its first invocation, calls the same driver again (same length, other point) before
       using its own argument gets R0; the inner call gets what it gets when run alone (drivers are re-entrant:
       the Rust drivers keep nothing outside their stack frame)
Nothing else is demanded (no message texts, no argument classes, no invocation counts as such).

Everything is a pure function of (--seed, --tier); the event log digest is printed so that the
caller can compare two interpreters (different PYTHONHASHSEED).
"""
import argparse
import json
import math
import sys
import time

import num_dual as nd


class Injected(Exception):
    pass


class InjectedCancel(BaseException):
    """models cancellation / KeyboardInterrupt arriving inside the callback"""


class EvilStr(Exception):
    """an exception that cannot be turned into text (a binding that formats the user's exception trips over it)"""

    def __str__(self):
        raise RuntimeError("__str__ of the injected exception was called and fails")

    __repr__ = __str__


def _one(a):
    return a


class ArityLike(TypeError):
    """a user-defined TypeError subclass whose text quotes an arity message"""


# statements that fail *inside* the callable's body; the exception object and its message are the interpreter's own
NATURAL_FAILURES = {
    "arity_of_helper": lambda args: _one(args[0], args[0]),            # TypeError: _one() takes 1 positional argument but 2 were given
    "arity_of_method": lambda args: first_leaf(args).powi(2, 3),       # TypeError from the extension module's own argument parsing
    "missing_argument": lambda args: _one(),                           # TypeError: _one() missing 1 required positional argument
    "unsupported_operand": lambda args: first_leaf(args) + "a",
    "name_error": lambda args: undefined_name_in_callable,             # noqa: F821
    "index_error": lambda args: [][1],
    "key_error": lambda args: {}["missing"],
    "attribute_error": lambda args: None.value,
    "float_of_text": lambda args: float("not a number"),
    "assertion": lambda args: (_ for _ in ()).throw(AssertionError("derivative of a branch that must not be taken")),
    "recursion": lambda args: _recurse(),
    "subclass_quoting_arity": lambda args: (_ for _ in ()).throw(ArityLike("f() takes 1 positional argument but 2 were given")),
}


def _recurse():
    return _recurse()


EXC_KINDS = {
    "custom": Injected,
    "evil_str": EvilStr,
    "keyboard_interrupt": KeyboardInterrupt,
    "stop_iteration": StopIteration,
    "type_error": TypeError,
    "value_error": ValueError,
    "zero_division": ZeroDivisionError,
    "cancel": InjectedCancel,
}
WRONG_RETURNS = {
    "none": lambda args: None,
    "float": lambda args: 1.5,
    "list": lambda args: [1.0, 2.0],
    "str": lambda args: "x",
    "int": lambda args: 3,
    "tuple": lambda args: (first_leaf(args), first_leaf(args)),
    "foreign_dual": lambda args: nd.HyperHyperDual64(1.0, 0.0, 0.0, 0.0, 0.0, 0.0, 0.0, 0.0) if not isinstance(first_leaf(args), nd.HyperHyperDual64) else nd.Dual64(1.0, 0.0),
}


def first_leaf(args):
    a = args[0]
    while isinstance(a, (list, tuple)):
        a = a[0]
    return a


class Splitmix:
    def __init__(self, seed):
        self.s = (seed ^ 0x9E3779B97F4A7C15) & 0xFFFFFFFFFFFFFFFF

    def next(self):
        self.s = (self.s + 0x9E3779B97F4A7C15) & 0xFFFFFFFFFFFFFFFF
        z = self.s
        z = ((z ^ (z >> 30)) * 0xBF58476D1CE4E5B9) & 0xFFFFFFFFFFFFFFFF
        z = ((z ^ (z >> 27)) * 0x94D049BB133111EB) & 0xFFFFFFFFFFFFFFFF
        return z ^ (z >> 31)

    def below(self, n):
        return self.next() % n

    def unit(self):
        return (self.next() >> 11) / float(1 << 53)


# --------------------------------------------------------------------------------------------
# user functions (written against the generic Python interface of the dual classes)
# --------------------------------------------------------------------------------------------
def fs_poly(v):
    acc = v[0] * v[0]
    for i, vi in enumerate(v[1:], 1):
        acc = acc + vi * vi * (i + 1.0)
    return acc


def fs_mixed(v):
    return v[0].sin() * v[-1].exp() + v[len(v) // 2] ** 3 / (v[0] * v[0] + 2.0)


def fs_nested_driver(v):
    # re-enters the binding layer from inside the callback
    _, d = nd.first_derivative(lambda t: t.sin() * t, 0.75)
    return fs_poly(v) * d


SCALAR_OF_LIST = {"poly": fs_poly, "mixed": fs_mixed, "nested": fs_nested_driver}


def fv_two(v):
    return [v[0] * v[-1], v[0].sin() + v[len(v) // 2]]


def fv_three(v):
    return [fs_poly(v), v[-1].exp(), v[0] * 2.0]


VECTOR_OF_LIST = {"two": fv_two, "three": fv_three}

UNI = {"sinx": lambda x: x.sin() * x, "rat": lambda x: (x * x + 1.0).recip() * x.exp()}
BI = {"xy": lambda x, y: x.powi(2) * y.sin() + y, "div": lambda x, y: x / (y * y + 1.5)}
TRI = {"xyz": lambda x, y, z: x.powi(2) * y.sin() * z.exp(), "sum": lambda x, y, z: (x + y * z).tanh()}
BI_LIST = {
    "ph1": lambda x, y: x[0] * y[-1].exp() + x[-1].powi(2) * y[0],
    "ph2": lambda x, y: fs_poly(x) * fs_poly(y),
}


# --------------------------------------------------------------------------------------------
# the seam
# --------------------------------------------------------------------------------------------
class Probe:
    def __init__(self, fn, plan):
        self.fn, self.plan = fn, plan
        self.calls = 0
        self.log = []
        self.injected = None  # the exception object raised, if any
        self.injected_state = None  # what that object carried when it left the callable (exc_state)
        self.kept = []        # (invocation, argument objects, their elements, snapshot when handed over)
        self.inner = None     # outcome of the re-entrant inner call, if the plan asked for one
        self.reenter = None   # set by invoke(): a thunk performing the inner call
        self.returned = []    # (invocation, the object the callable returned, its elements, snapshot)

    def __call__(self, *args):
        self.calls += 1
        k = self.calls
        p = self.plan
        self.kept.append((k, args, [list(a) if isinstance(a, (list, tuple)) else None for a in args], snapshot(args)))
        if p["kind"] == "reenter" and k == 1 and self.reenter is not None:
            self.log.append(("call", k, True))
            if p.get("when") == "late":
                # the other call happens after the callable has computed its result, before it returns it
                res = self.fn(*args)
                self.inner = self.reenter()
            else:
                self.inner = self.reenter()
                res = self.fn(*args)
            self.returned.append((k, res, list(res) if isinstance(res, (list, tuple)) else None, snapshot((res,))))
            return res
        fire = p["kind"] != "none" and (k == p["at"] or (p.get("permanent") and k >= p["at"]))
        self.log.append(("call", k, bool(fire)))
        if fire:
            if p["kind"] == "natural":
                try:
                    NATURAL_FAILURES[p["what"]](args)
                except BaseException as e:  # noqa: BLE001
                    if self.injected is None:
                        self.injected = e
                        self.injected_state = exc_state(e)
                    raise
                raise SystemExit(f"harness error: natural failure {p['what']} did not fail")
            if p["kind"] == "raise":
                e = EXC_KINDS[p["exc"]](f"injected at invocation {k}")
                if self.injected is None:
                    self.injected = e
                    self.injected_state = exc_state(e)
                raise e
            if p["kind"] == "wrong_return":
                return WRONG_RETURNS[p["ret"]](args)
        res = self.fn(*args)
        # what the callable hands back stays the callable's: a cached or logged result must still be what it was
        self.returned.append((k, res, list(res) if isinstance(res, (list, tuple)) else None, snapshot((res,))))
        return res


def exc_state(e):
    """what an exception object carries besides its traceback (which grows legitimately while it propagates): its
    arguments, its notes, its instance attributes, its cause and context"""
    try:
        attrs = sorted((k, repr(v)[:80]) for k, v in vars(e).items())
    except BaseException:  # noqa: BLE001
        attrs = None
    notes = getattr(e, "__notes__", None)
    return (repr(e.args)[:200], None if notes is None else [str(n)[:120] for n in notes], attrs,
            id(e.__cause__) if e.__cause__ is not None else None, id(e.__context__) if e.__context__ is not None else None,
            e.__suppress_context__)


def snapshot(args):
    """what the callable was handed, as text: every argument, lists element by element"""
    return [[repr(e) for e in a] if isinstance(a, (list, tuple)) else repr(a) for a in args]


def kept_changed(pr):
    """None, or a description of an argument of `pr`'s callable that is no longer what it was when handed over"""
    for k, res, elems, snap in pr.returned:
        now = snapshot((res,))
        if now != snap:
            return f"the object the callable returned at invocation {k} has changed: was {str(snap)[:160]}, is now {str(now)[:160]}"
        if elems is not None and (len(res) != len(elems) or any(x is not y for x, y in zip(res, elems))):
            return f"the list the callable returned at invocation {k} holds other objects than when it was returned"
    for k, args, elems, snap in pr.kept:
        now = snapshot(args)
        if now != snap:
            return f"the argument handed to the callable at invocation {k} has changed: was {str(snap)[:160]}, is now {str(now)[:160]}"
        for a, el in zip(args, elems):
            if el is not None and (len(a) != len(el) or any(x is not y for x, y in zip(a, el))):
                return f"the list handed to the callable at invocation {k} holds other objects than when it was handed over (it was refilled in place)"
    return None


def change_class(ch, later):
    if "the callable returned" in ch:
        return "A2_returned_object_changed"
    return "A1_argument_changed_by_later_call" if later else "A1_argument_changed"


def canon(v):
    if isinstance(v, float):
        return v.hex()
    if isinstance(v, (list, tuple)):
        return [canon(x) for x in v]
    if isinstance(v, int):
        return v
    return repr(v)


def make_call(case, fn_or_probe):
    """the driver call of a scenario with the given callable"""
    d = case["driver"]
    x = case["x"]

    def box(seq):
        return tuple(seq) if case.get("container") == "tuple" else list(seq)

    if d in ("first_derivative", "second_derivative", "third_derivative"):
        return lambda: getattr(nd, d)(fn_or_probe, x[0])
    if d == "second_partial_derivative":
        return lambda: nd.second_partial_derivative(fn_or_probe, x[0], x[1])
    if d == "third_partial_derivative":
        return lambda: nd.third_partial_derivative(fn_or_probe, x[0], x[1], x[2])
    if d == "third_partial_derivative_vec":
        i, j, k = case["ijk"]
        return lambda: nd.third_partial_derivative_vec(fn_or_probe, list(x), i, j, k)
    if d in ("gradient", "hessian", "jacobian"):
        return lambda: getattr(nd, d)(fn_or_probe, box(x))
    if d == "partial_hessian":
        return lambda: nd.partial_hessian(fn_or_probe, box(x), box(case["y"]))
    raise SystemExit(f"harness error: unknown driver {d}")


def user_fn(case):
    d, fam = case["driver"], case["fn"]
    if d in ("first_derivative", "second_derivative", "third_derivative"):
        return UNI[fam]
    if d == "second_partial_derivative":
        return BI[fam]
    if d == "third_partial_derivative":
        return TRI[fam]
    if d in ("third_partial_derivative_vec", "gradient", "hessian"):
        return SCALAR_OF_LIST[fam]
    if d == "jacobian":
        return VECTOR_OF_LIST[fam]
    if d == "partial_hessian":
        return BI_LIST[fam]
    raise SystemExit(f"harness error: unknown driver {d}")


def inner_case(case):
    """the scenario of the re-entrant inner call: same driver, same lengths, another point"""
    c = dict(case, x=[v + 0.125 for v in case["x"]])
    if "y" in case:
        c["y"] = [v + 0.375 for v in case["y"]]
    return c


def outcome_of(call, pr=None):
    try:
        val = call()
        return {"kind": "ok", "value": canon(val)}
    except BaseException as e:  # noqa: BLE001 - the simulator must see everything, including cancellation
        if isinstance(e, (SystemExit, MemoryError)):
            raise
        try:
            msg = str(e)[:120]
        except BaseException:  # noqa: BLE001 - the injected exception that cannot be printed
            msg = "<unprintable>"
        # the traceback the caller gets still leads into the callable (a driver that re-raises the object "cleanly",
        # with_traceback(None), hands over the same object without the place it came from)
        reaches = None
        if pr is not None and e is pr.injected:
            reaches, tb = False, e.__traceback__
            while tb is not None:
                if tb.tb_frame.f_code is Probe.__call__.__code__:
                    reaches = True
                    break
                tb = tb.tb_next
        return {"kind": "raise", "type": type(e).__name__, "is_injected": pr is not None and e is pr.injected, "msg": msg, "tb_reaches_callable": reaches}


def invoke(case, plan):
    """run one driver call of the real code under `plan`; returns (outcome, probe)"""
    pr = Probe(user_fn(case), plan)
    if plan["kind"] == "reenter":
        ic = inner_case(case)
        pr.reenter = lambda: outcome_of(make_call(ic, user_fn(ic)))
    out = outcome_of(make_call(case, pr), pr)
    return out, pr


def plans_for(tier):
    plans = [{"kind": "none"}]
    for exc in EXC_KINDS:
        plans.append({"kind": "raise", "exc": exc, "at": 1})                      # transient: only the first invocation fails
        plans.append({"kind": "raise", "exc": exc, "at": 1, "permanent": True})   # every invocation fails
    for k in (2, 3) if tier == "quick" else (2, 3, 4, 7):
        plans.append({"kind": "raise", "exc": "custom", "at": k})
        plans.append({"kind": "raise", "exc": "type_error", "at": k, "permanent": True})
    for what in NATURAL_FAILURES:
        plans.append({"kind": "natural", "what": what, "at": 1})
    for ret in WRONG_RETURNS:
        plans.append({"kind": "wrong_return", "ret": ret, "at": 1})
    plans.append({"kind": "wrong_return", "ret": "none", "at": 2})
    # the bindings never release the GIL, so another Python thread can run a driver only while a callable executes
    # Python code: every cross-thread interleaving of driver calls is a complete driver call nested inside a callable
    # invocation.  These two plans place that nested call at the start and at the end of the callable, deterministically.
    plans.append({"kind": "reenter", "at": 1, "when": "early"})
    plans.append({"kind": "reenter", "at": 1, "when": "late"})
    return plans


def judge(case, plan, r0, out, pr):
    """returns None or (class, message)"""
    changed = kept_changed(pr)
    if changed is not None:
        return (change_class(changed, False), changed + " (after the driver returned)")
    if plan["kind"] == "none":
        return None
    if plan["kind"] == "reenter":
        if pr.inner is None:
            return None  # the callable was never invoked (arguments rejected before)
        alone, _ = invoke(inner_case(case), {"kind": "none"})
        if out != r0:
            return ("R1_reentrancy_changed_outcome", f"the callable called {case['driver']} again (same length, other point) before using its own argument; "
                    f"the outer call then returned {str(out)[:110]} instead of {str(r0)[:110]}")
        if pr.inner != alone:
            return ("R1_reentrancy_changed_inner", f"the inner call of {case['driver']} made from inside the callable returned {str(pr.inner)[:110]}; run alone it returns {str(alone)[:110]}")
        return None
    fired = any(e[2] for e in pr.log)
    if not fired:
        # includes drivers that reject the arguments before ever invoking the callable (e.g. jacobian with n > 10)
        if out != r0:
            return ("F2_unfired_fault_visible", f"no fault fired (callable invoked {pr.calls} times) but the outcome differs from the fault-free run: "
                    f"{str(out)[:100]} vs {str(r0)[:100]}")
        return None
    first_fire = next(e[1] for e in pr.log if e[2])
    if plan["kind"] in ("raise", "natural") and first_fire == 1:
        plan = dict(plan, exc=plan.get("exc", plan.get("what")))
        if out["kind"] != "raise":
            return ("F1_error_swallowed", f"the callable raised {plan['exc']} on its first invocation but the driver returned {str(out['value'])[:80]} "
                    f"(callable invoked {pr.calls} times); the Rust driver returns Err(e)")
        if not out["is_injected"]:
            return ("F1_error_replaced", f"the callable raised {plan['exc']} on its first invocation but the driver raised {out['type']}: {out['msg']!r} "
                    f"instead of that exception object (callable invoked {pr.calls} times)")
        if out.get("tb_reaches_callable") is False:
            return ("F1_error_modified", f"the callable raised {plan['exc']} on its first invocation and the driver raised that object, but its traceback "
                    f"no longer leads into the callable: the place the error came from is gone")
        now = exc_state(pr.injected)
        if now != pr.injected_state:
            return ("F1_error_modified", f"the callable raised {plan['exc']} on its first invocation and the driver raised that object, but not unchanged: "
                    f"(args, notes, attributes, cause, context, suppress_context) were {str(pr.injected_state)[:160]} when it left the callable and are {str(now)[:160]} at the caller")
        return None
    if first_fire >= 2 and out != r0:
        return ("F2_later_fault_visible", f"a fault planned for invocation {plan['at']} fired and changed the outcome: {str(out)[:100]} vs fault-free {str(r0)[:100]} "
                f"(callable invoked {pr.calls} times; the Rust driver invokes its closure once)")
    # a wrong-typed return on the first invocation has no Rust counterpart (the closure's return type is fixed by
    # the compiler), so nothing is demanded of it
    return None


def run_scenario(case, plan):
    """everything the main loop does for one (scenario, plan), self-contained: two fault-free runs, the run under
    the plan, the residue run, and the re-examination of every argument retained on the way.
    Returns (violation or None, fault-free outcome, outcome under the plan, probe of that run)"""
    r0, p0 = invoke(case, {"kind": "none"})
    r0b, p0b = invoke(case, {"kind": "none"})
    if r0 != r0b:
        return ("F4_nondeterministic", f"two fault-free runs differ: {str(r0)[:100]} vs {str(r0b)[:100]}"), r0, r0b, p0b
    for old in (p0, p0b):
        ch = kept_changed(old)
        if ch is not None:
            return (change_class(ch, True), ch + " (two fault-free calls in a row)"), r0, r0b, p0
    if plan["kind"] == "none":
        return None, r0, r0b, p0b
    out, pr = invoke(case, plan)
    j = judge(case, plan, r0, out, pr)
    if j is None and any(e[2] for e in pr.log):
        again, _ = invoke(case, {"kind": "none"})
        if again != r0:
            j = ("F5_fault_left_residue", f"after a run under {plan}, the fault-free run returns {str(again)[:100]} instead of {str(r0)[:100]}")
    if j is None:
        for old in (p0, p0b, pr):
            ch = kept_changed(old)
            if ch is not None:
                j = (change_class(ch, True), ch + f" (after a later call of {case['driver']})")
                break
    return j, r0, out, pr


def cases_for(tier, rng):
    """the explicit list of (driver, arguments, function) scenarios; faults are added per scenario"""
    cases = []

    def point(n):
        return [0.3 + 1.7 * rng.unit() for _ in range(n)]

    for fam in UNI:
        for d in ("first_derivative", "second_derivative", "third_derivative"):
            cases.append({"driver": d, "fn": fam, "x": point(1)})
    for fam in BI:
        cases.append({"driver": "second_partial_derivative", "fn": fam, "x": point(2)})
    for fam in TRI:
        cases.append({"driver": "third_partial_derivative", "fn": fam, "x": point(3)})
    lengths = list(range(1, 13)) + [16, 33, 64]
    for n in lengths:
        for fam in SCALAR_OF_LIST:
            if tier == "quick" and fam == "nested" and n not in (1, 3, 10, 11):
                continue
            for d in ("gradient", "hessian"):
                for container in ("list", "tuple"):
                    if container == "tuple" and (tier == "quick" and n not in (2, 10, 11)):
                        continue
                    cases.append({"driver": d, "fn": fam, "x": point(n), "container": container})
        if n > 12:
            # beyond the named lengths: gradient and hessian only (one function, list container)
            cases[:] = [c for c in cases if not (len(c["x"]) == n and (c["fn"] != "poly" or c.get("container") == "tuple" or (c["driver"] == "hessian" and n > 33)))]
            continue
        for fam in VECTOR_OF_LIST:
            cases.append({"driver": "jacobian", "fn": fam, "x": point(n), "container": "list"})
        if n >= 3:
            for fam in ("poly", "mixed"):
                ijk = [rng.below(n), rng.below(n), rng.below(n)]
                cases.append({"driver": "third_partial_derivative_vec", "fn": fam, "x": point(n), "ijk": ijk})
    # every fixed-size instantiation of partial_hessian (1..5 x 1..5) and the dynamic branch beyond it
    dims = [(m, n) for m in range(1, 7) for n in range(1, 7)] + [(7, 7)] if tier == "quick" else [(m, n) for m in range(1, 9) for n in range(1, 9)]
    for m, n in dims:
        for fam in BI_LIST:
            cases.append({"driver": "partial_hessian", "fn": fam, "x": point(m), "y": point(n), "container": "list"})
    return cases


def minimise(case, plan, cls):
    """smaller vectors, simplest function, list container - while the same class of violation persists"""
    def still(c, p):
        j = run_scenario(c, p)[0]
        return j is not None and j[0] == cls

    steps = 0
    best = dict(case)
    if best.get("container") == "tuple":
        c = dict(best, container="list")
        if still(c, plan):
            best, steps = c, steps + 1
    fams = {"gradient": ["poly"], "hessian": ["poly"], "jacobian": ["two"], "third_partial_derivative_vec": ["poly"], "partial_hessian": ["ph1"]}.get(best["driver"], [])
    for fam in fams:
        c = dict(best, fn=fam)
        if c != best and still(c, plan):
            best, steps = c, steps + 1
    if best["driver"] in ("gradient", "hessian", "jacobian"):
        for n in range(1, len(best["x"])):
            c = dict(best, x=[1.0 + 0.5 * i for i in range(n)])
            if still(c, plan):
                best, steps = c, steps + 1
                break
    return best, steps


def main():
    ap = argparse.ArgumentParser()
    ap.add_argument("--tier", default="quick")
    ap.add_argument("--seed", type=int, default=20261002)
    ap.add_argument("--out", required=True)
    ap.add_argument("--replay")
    a = ap.parse_args()
    t0 = time.time()

    if a.replay:
        rf = json.load(open(a.replay))
        case, plan = rf["case"], rf["plan"]
        j, r0, out, pr = run_scenario(case, plan)
        json.dump({"replay": True, "case": case, "plan": plan, "fault_free": r0, "outcome": out, "invocations": pr.calls, "log": pr.log,
                   "violation": None if j is None else {"class": j[0], "message": j[1]}}, open(a.out, "w"), indent=1)
        return

    rng = Splitmix(a.seed)
    plans = plans_for(a.tier)
    cases = cases_for(a.tier, rng)
    digest = 0xcbf29ce484222325
    stats = {"scenarios": len(cases), "runs": 0, "faults_planned": 0, "faults_fired": {}, "fired_runs": 0, "distinct_histories": set(),
             "drivers": {}, "lengths": set(), "raised_outcomes": 0, "max_invocations": 0}
    samples, violations = [], {}
    recent = []  # the probes of the last few runs: their retained arguments are re-examined after later calls
    for ci, case in enumerate(cases):
        r0, p0 = invoke(case, {"kind": "none"})
        r0b, p0b = invoke(case, {"kind": "none"})
        stats["runs"] += 2
        for old in (p0, p0b):
            ch = kept_changed(old)
            if ch is not None:
                violations.setdefault(f"{change_class(ch, True)}:{case['driver']}", (ci, case, {"kind": "none"}, (change_class(ch, True), ch + " (two fault-free calls in a row)"), r0, r0b, p0))
        stats["drivers"][case["driver"]] = stats["drivers"].get(case["driver"], 0) + 1
        stats["lengths"].add(len(case["x"]))
        if r0 != r0b:
            violations.setdefault(f"F4_nondeterministic:{case['driver']}", (ci, case, {"kind": "none"}, ("F4_nondeterministic", f"two fault-free runs differ: {str(r0)[:100]} vs {str(r0b)[:100]}"), r0, r0b, p0))
            continue
        for plan in plans[1:]:
            out, pr = invoke(case, plan)
            stats["runs"] += 1
            stats["faults_planned"] += 1
            fired = sum(1 for e in pr.log if e[2])
            key = plan["kind"] + ":" + plan.get("exc", plan.get("ret", plan.get("what", "same_driver_" + plan.get("when", ""))))
            if fired:
                stats["fired_runs"] += 1
                stats["faults_fired"][key] = stats["faults_fired"].get(key, 0) + fired
            stats["max_invocations"] = max(stats["max_invocations"], pr.calls)
            if out["kind"] == "raise":
                stats["raised_outcomes"] += 1
            hist = json.dumps([case["driver"], len(case["x"]), len(case.get("y", [])), case["fn"], case.get("container"), plan, pr.log, out["kind"], out.get("type")], sort_keys=True)
            if fired:
                stats["distinct_histories"].add(hist)
            for b in (hist + json.dumps(out, sort_keys=True)).encode():
                digest = ((digest ^ b) * 0x100000001b3) & 0xFFFFFFFFFFFFFFFF
            if len(samples) < 4 and fired and (ci * 7 + len(samples)) % 23 == 0:
                samples.append({"driver": case["driver"], "n": len(case["x"]), "fn": case["fn"], "plan": plan, "invocation_log": pr.log, "outcome": out, "fault_free": r0})
            j = judge(case, plan, r0, out, pr)
            if j is None and fired:
                # F5: a fault leaves nothing behind - the fault-free run still gives R0
                again, _ = invoke(case, {"kind": "none"})
                stats["runs"] += 1
                stats["residue_checks"] = stats.get("residue_checks", 0) + 1
                if again != r0:
                    j = ("F5_fault_left_residue", f"after a run in which {key} fired, the fault-free run returns {str(again)[:100]} instead of {str(r0)[:100]}")
            if j is None:
                # A1 across calls: what earlier callables were handed must still be what it was
                for old in recent:
                    ch = kept_changed(old)
                    if ch is not None:
                        j = (change_class(ch, True), ch + f" (after a later call of {case['driver']})")
                        break
            recent.append(pr)
            del recent[:-3]
            stats["arguments_retained_and_rechecked"] = stats.get("arguments_retained_and_rechecked", 0) + len(pr.kept)
            if j is not None:
                # first violating run per finding key (what fails: class of violation and driver)
                violations.setdefault(f"{j[0]}:{case['driver']}", (ci, case, plan, j, r0, out, pr))

    result = {
        "seed": a.seed, "tier": a.tier, "digest": f"{digest:016x}", "wall_s": None,
        "stats": {**{k: v for k, v in stats.items() if k not in ("distinct_histories", "lengths")},
                  "distinct_histories_with_fault_fired": len(stats["distinct_histories"]), "lengths": sorted(stats["lengths"]), "plans_per_scenario": len(plans) - 1},
        "samples": samples, "violation": None,
    }
    out_v = []
    for key, (ci, case, plan, j, r0, out, pr) in sorted(violations.items(), key=lambda kv: kv[1][0]):
        mcase, steps = (case, 0) if j[0] == "F4_nondeterministic" else minimise(case, plan, j[0])
        jm, r0m, outm, prm = run_scenario(mcase, plan)
        jm = jm or j
        out_v.append({"class": j[0], "message": jm[1], "scenario_index": ci, "case": mcase, "plan": plan, "minimised_from": case if mcase != case else None,
                      "minimise_steps": steps, "fault_free": r0m, "outcome": outm if isinstance(outm, dict) else None,
                      "invocation_log": prm.log, "finding_key": key})
    result["violations"] = out_v
    result["violation"] = out_v[0] if out_v else None
    result["wall_s"] = round(time.time() - t0, 3)
    json.dump(result, open(a.out, "w"), indent=1, sort_keys=True)


if __name__ == "__main__":
    main()
