#!/usr/bin/env bash
# Entry point of every registered check:  ./check.sh <property-id> <quick|thorough> [--replay <file>]
#   exit 0  the property held on everything explored (KNOWN-FINDING lines may be printed)
#   exit 1  a violation not listed in known_findings.json; a line "VIOLATION property=<id> replay=<path>" is printed
#   exit 2  the harness itself failed (build error, missing tool) - never a verdict about the property
# Everything is rebuilt from /repo's current working tree on every call; nothing is fetched.
set -u
cd "$(dirname "$0")" || exit 2
VERIF="$(pwd)"
export CARGO_NET_OFFLINE=true
ID="${1:-}"; TIER="${2:-${VERIF_TIER:-quick}}"; shift 2 2>/dev/null || true
SEED="${VERIF_SEED:-20261002}"
case "$SEED" in (*[!0-9]*|'') SEED=20261002;; esac
mkdir -p "$VERIF/evidence" "$VERIF/replays"

build_sim() {
  [ -f "$VERIF/sim/Cargo.lock" ] || cp /repo/Cargo.lock "$VERIF/sim/Cargo.lock" || return 2
  ( cd "$VERIF/sim" && cargo build --release --offline ) >"$VERIF/sim/build.log" 2>&1 || {
    echo "check.sh: building the simulator against /repo failed (harness error, no verdict):" >&2
    grep -E "^error" -A12 "$VERIF/sim/build.log" | head -60 >&2
    return 2
  }
}

case "$ID" in
  C18)
    build_sim || exit 2
    if [ "${1:-}" = "--replay" ]; then exec "$VERIF/sim/target/release/dst-sim" --replay "$2" --verif-dir "$VERIF"; fi
    "$VERIF/sim/target/release/dst-sim" --tier "$TIER" --seed "$SEED" --verif-dir "$VERIF"
    rc=$?
    [ $rc -le 1 ] || { echo "check.sh: simulator exited with $rc (harness error)" >&2; exit 2; }
    exit $rc
    ;;
  C05)
    [ -f "$VERIF/sim05/Cargo.lock" ] || cp /repo/Cargo.lock "$VERIF/sim05/Cargo.lock" || exit 2
    ( cd "$VERIF/sim05" && cargo build --release --offline --target-dir "$VERIF/sim/target" ) >"$VERIF/sim05/build.log" 2>&1 || {
      echo "check.sh: building the C05 simulator against /repo failed (harness error, no verdict):" >&2
      grep -E "^error" -A12 "$VERIF/sim05/build.log" | head -60 >&2
      exit 2
    }
    if [ "${1:-}" = "--replay" ]; then exec "$VERIF/sim/target/release/dst-sim05" --replay "$2" --verif-dir "$VERIF"; fi
    "$VERIF/sim/target/release/dst-sim05" --tier "$TIER" --seed "$SEED" --verif-dir "$VERIF"
    rc=$?
    [ $rc -le 1 ] || { echo "check.sh: simulator exited with $rc (harness error)" >&2; exit 2; }
    exit $rc
    ;;
  C16)
    [ -f "$VERIF/sim16/Cargo.lock" ] || cp /repo/Cargo.lock "$VERIF/sim16/Cargo.lock" || exit 2
    ( cd "$VERIF/sim16" && cargo build --release --offline --target-dir "$VERIF/sim/target" ) >"$VERIF/sim16/build.log" 2>&1 || {
      echo "check.sh: building the C16 simulator against /repo (feature serde) failed (harness error, no verdict):" >&2
      grep -E "^error" -A12 "$VERIF/sim16/build.log" | head -60 >&2
      exit 2
    }
    if [ "${1:-}" = "--replay" ]; then exec "$VERIF/sim/target/release/dst-sim16" --replay "$2" --verif-dir "$VERIF"; fi
    "$VERIF/sim/target/release/dst-sim16" --tier "$TIER" --seed "$SEED" --verif-dir "$VERIF"
    rc=$?
    [ $rc -le 1 ] || { echo "check.sh: simulator exited with $rc (harness error)" >&2; exit 2; }
    exit $rc
    ;;
  C17)
    exec python3 "$VERIF/sim_py/c17_check.py" --tier "$TIER" --seed "$SEED" "$@"
    ;;
  *)
    echo "usage: check.sh <C05|C16|C17|C18> <quick|thorough> [--replay file]" >&2
    exit 2
    ;;
esac
