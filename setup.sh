#!/usr/bin/env bash
# Run once after a fresh restore, offline: pre-builds the simulators so that the quick checks start warm.
# (Every check rebuilds from /repo's current working tree anyway; this only fills the cargo target directories.)
set -u
cd "$(dirname "$0")" || exit 1
export CARGO_NET_OFFLINE=true
[ -f sim/Cargo.lock ] || cp /repo/Cargo.lock sim/Cargo.lock
( cd sim && cargo build --release --offline ) || exit 1
[ -f sim05/Cargo.lock ] || cp /repo/Cargo.lock sim05/Cargo.lock
( cd sim05 && cargo build --release --offline --target-dir ../sim/target ) || exit 1
[ -f sim16/Cargo.lock ] || cp /repo/Cargo.lock sim16/Cargo.lock
( cd sim16 && cargo build --release --offline --target-dir ../sim/target ) || exit 1
( cd /repo && cargo rustc --offline --lib --features python --crate-type cdylib --target-dir /verif/sim_py/target ) || exit 1
[ -f sim_py/twin/Cargo.lock ] || cp /repo/Cargo.lock sim_py/twin/Cargo.lock
( cd sim_py/twin && cargo build --release --offline ) || exit 1
echo "setup ok"
