#!/usr/bin/env python3
"""Dynamic applicability audit for deterministic simulation with fault injection (DESIGN.md section 8).

NOT a property check (no oracle about derivatives, nothing it prints is a property violation).
It answers one question the static audit (tools/applicability_audit.py) cannot: does num-dual, *or any
dependency it calls* (nalgebra, simba, ndarray, matrixmultiply, serde, serde_json, std), ever reach a
source of nondeterminism or a fault surface while the operations the properties are observed at run?

  1. builds src/main.rs (the surface workload) against /repo's CURRENT working tree, offline;
  2. runs it in P fresh processes with perturbed environments (ASLR on/off, different stack limits,
     different env size, different CPU affinity) and demands one identical result digest;
  3. runs it under an LD_PRELOAD interposer that counts clock / sleep / thread / random / io / env /
     allocator libc calls inside the workload window (sees vDSO clocks strace cannot);
  4. runs it under `strace -f` and lists every system call inside the window (sees raw syscalls the
     interposer cannot); anything other than memory management breaks the premise;
  5. proves its own sensitivity: five canary runs (clock, sleep, thread, random, io) must each be
     flagged by at least one detector.

exit 0  no nondeterminism/fault surface reached, digest identical everywhere, all canaries noticed
exit 3  a surface was reached or digests differ -> DESIGN.md section 7 applies, revisit the N/A answers
exit 2  the audit could not run (build failure, strace unusable, canary not noticed)
Never exits 1, never prints a line starting with VIOLATION.
"""
import argparse
import json
import os
import re
import shutil
import subprocess
import sys
import time
from concurrent.futures import ThreadPoolExecutor

HERE = os.path.dirname(os.path.abspath(__file__))
BIN = os.path.join(HERE, "target", "debug", "dst-dynamic-audit")
SO = os.path.join(HERE, "target", "interpose.so")
PYMOD = os.path.join(HERE, "target-py", "mod")
PYWORK = os.path.join(HERE, "py_workload.py")
MEM_SYSCALLS = {"brk", "mmap", "munmap", "mremap", "madvise", "mprotect"}
MARK = "getppid"


def sh(cmd, **kw):
    return subprocess.run(cmd, capture_output=True, text=True, **kw)


def build():
    env = dict(os.environ, CARGO_NET_OFFLINE="true")
    lock_src, lock_dst = "/repo/Cargo.lock", os.path.join(HERE, "Cargo.lock")
    if not os.path.exists(lock_dst) and os.path.exists(lock_src):
        shutil.copy(lock_src, lock_dst)
    r = sh(["cargo", "build", "--offline"], cwd=HERE, env=env)
    if r.returncode != 0:
        print(r.stderr[-4000:], file=sys.stderr)
        return False
    os.makedirs(os.path.dirname(SO), exist_ok=True)
    r = sh(["gcc", "-O1", "-shared", "-fPIC", "-o", SO, os.path.join(HERE, "interpose.c"), "-ldl"])
    if r.returncode != 0:
        print(r.stderr[-4000:], file=sys.stderr)
        return False
    return True


def build_python():
    """the extension module, from /repo's current tree, as maturin would build it (cdylib, feature python)"""
    env = dict(os.environ, CARGO_NET_OFFLINE="true")
    tdir = os.path.join(HERE, "target-py")
    r = sh(["cargo", "rustc", "--offline", "--lib", "--features", "python", "--crate-type", "cdylib", "--target-dir", tdir],
           cwd="/repo", env=env)
    lib = os.path.join(tdir, "debug", "libnum_dual.so")
    if r.returncode != 0 or not os.path.exists(lib):
        print(r.stderr[-4000:], file=sys.stderr)
        return False
    os.makedirs(PYMOD, exist_ok=True)
    shutil.copy(lib, os.path.join(PYMOD, "num_dual.so"))
    return True


def run_plain(i, reps, base=None):
    """one fresh process, environment perturbed as a function of i (deterministically)"""
    env = {"PATH": "/usr/bin:/bin", "PAD": "x" * (37 * i % 4000), "RAYON_NUM_THREADS": str(1 + i % 16),
           "OMP_NUM_THREADS": str(1 + i % 7), "MALLOC_ARENA_MAX": str(1 + i % 4), "MALLOC_PERTURB_": str(i % 256),
           "RUST_MIN_STACK": str((2 + i % 6) << 20), "LANG": ["C", "C.UTF-8", "de_DE.UTF-8", "tr_TR.UTF-8"][i % 4],
           "LC_ALL": ["C", "C.UTF-8", "de_DE.UTF-8", "tr_TR.UTF-8"][i % 4], "TZ": ["UTC", "Asia/Tokyo", "America/Lima"][i % 3]}
    cmd = [BIN, str(reps)] if base is None else list(base)
    if base is not None:
        env["PYTHONPATH"] = PYMOD
        env["PYTHONHASHSEED"] = str(i * 7919 % 4294967295) if i % 5 else "random"
        env["PYTHONDONTWRITEBYTECODE"] = "1"
    if i % 2 == 1 and shutil.which("setarch"):
        cmd = ["setarch", "-R"] + cmd  # ASLR off for odd i
    if i % 3 == 2 and shutil.which("taskset"):
        cmd = ["taskset", "-c", str(i % (os.cpu_count() or 1))] + cmd
    r = sh(cmd, env=env)
    m = re.search(r"digest=([0-9a-f]{16}) items=(\d+) bytes=(\d+)", r.stdout)
    return (r.returncode, m.group(1) if m else None, int(m.group(2)) if m else 0, r.stdout)


def run_interposed(canary, reps, tmpdir, base=None):
    out = os.path.join(tmpdir, f"interpose_{canary}.txt")
    if os.path.exists(out):
        os.remove(out)
    env = dict(os.environ, LD_PRELOAD=SO, DST_AUDIT_OUT=out, PYTHONPATH=PYMOD, PYTHONDONTWRITEBYTECODE="1")
    r = sh(([BIN, str(reps)] if base is None else list(base)) + [canary], env=env)
    kinds, fns, raw = {}, {}, []
    if r.returncode != 0 or not os.path.exists(out):
        return None
    for line in open(out):
        t = line.split()
        if t[0] == "kind":
            kinds[t[1]] = int(t[2])
        elif t[0] == "fn":
            fns[t[1]] = int(t[2])
        elif t[0] == "rawnr":
            raw.append(int(t[1]))
    os.remove(out)
    return {"kinds": kinds, "fns": fns, "raw_syscall_numbers": raw}


def run_strace(canary, reps, tmpdir, base=None):
    out = os.path.join(tmpdir, f"strace_{canary}.txt")
    env = dict(os.environ, PYTHONPATH=PYMOD, PYTHONDONTWRITEBYTECODE="1")
    r = sh(["strace", "-f", "-qq", "-o", out] + ([BIN, str(reps)] if base is None else list(base)) + [canary], env=env)
    if r.returncode != 0 or not os.path.exists(out):
        return None
    inside, seen_marks, calls, tids = False, 0, {}, set()
    for line in open(out):
        m = re.match(r"(\d+)\s+(?:<\.\.\. )?([a-z_0-9]+)", line)
        if not m:
            continue
        tid, name = m.group(1), m.group(2)
        if name == MARK and "resumed" not in line:
            seen_marks += 1
            inside = not inside
            continue
        if inside or (seen_marks == 1):
            calls[name] = calls.get(name, 0) + 1
            tids.add(tid)
    os.remove(out)
    if seen_marks != 2:
        return None
    return {"syscalls": calls, "threads_seen": len(tids) if calls else 1}


def surfaces_from(ip, st):
    """list of (detector, what) for every nondeterminism / fault surface reached inside the window"""
    found = []
    for kind in ("clock", "sleep", "thread", "random", "io", "env"):
        if ip["kinds"].get(kind, 0):
            names = [f for f in ip["fns"] if f not in ("malloc", "calloc", "realloc", "free", "posix_memalign")]
            found.append(("interposer", f"{kind} x{ip['kinds'][kind]} via {','.join(sorted(names))}"))
    if ip["kinds"].get("raw_syscall", 0):
        found.append(("interposer", f"raw syscall(2) numbers {ip['raw_syscall_numbers']}"))
    for name, n in sorted(st["syscalls"].items()):
        if name not in MEM_SYSCALLS:
            found.append(("strace", f"{name} x{n}"))
    if st["threads_seen"] > 1:
        found.append(("strace", f"{st['threads_seen']} threads made system calls inside the window"))
    return found


def main():
    ap = argparse.ArgumentParser()
    ap.add_argument("--processes", type=int, default=32, help="fresh processes for the digest comparison")
    ap.add_argument("--reps", type=int, default=1, help="workload repetitions per process")
    ap.add_argument("--no-python", action="store_true", help="skip the extension-module stage (C17)")
    ap.add_argument("--json", default=None, help="write the report here")
    a = ap.parse_args()
    t0 = time.time()
    if not shutil.which("strace") or not shutil.which("gcc"):
        print("dynamic audit: strace or gcc missing", file=sys.stderr)
        sys.exit(2)
    if not build():
        print("dynamic audit: build failed", file=sys.stderr)
        sys.exit(2)
    tmpdir = os.path.join(HERE, "target", "audit_tmp")
    os.makedirs(tmpdir, exist_ok=True)
    report = {"repo_head": sh(["git", "-C", "/repo", "rev-parse", "--short", "HEAD"]).stdout.strip(),
              "repo_dirty": subprocess.run(["git", "-C", "/repo", "diff", "--quiet"]).returncode != 0}
    broken, tool_error = [], []

    # -- 2. determinism across processes and environments
    with ThreadPoolExecutor(max_workers=min(16, os.cpu_count() or 1)) as ex:
        res = list(ex.map(lambda i: run_plain(i, a.reps), range(a.processes)))
    bad_rc = [i for i, r in enumerate(res) if r[0] != 0 or r[1] is None]
    digests = sorted({r[1] for r in res if r[1]})
    report["determinism"] = {"processes": a.processes, "distinct_digests": digests, "items_per_process": res[0][2],
                             "failed_processes": bad_rc,
                             "perturbations": "ASLR on/off (setarch -R), CPU pinning, env size, MALLOC_PERTURB_, MALLOC_ARENA_MAX, RUST_MIN_STACK, locale, TZ, *_NUM_THREADS"}
    sections = [l for l in res[0][3].splitlines() if l.startswith("section ")]
    report["workload_sections"] = sections
    print(f"workload: {res[0][2]} results per run over {len(sections)} surface sections (C01-C16, C18)")
    if bad_rc:
        tool_error.append(f"workload exited non-zero in processes {bad_rc}")
    if len(digests) == 1:
        print(f"  ok      one digest {digests[0]} in {a.processes} fresh processes with perturbed environments")
    else:
        print(f"  BROKEN  {len(digests)} distinct digests across processes: {digests}")
        broken.append("result digest differs between processes")

    # -- 3/4. surfaces reached on the real workload
    ip = run_interposed("none", a.reps, tmpdir)
    st = run_strace("none", a.reps, tmpdir)
    if ip is None or st is None:
        print("dynamic audit: interposer or strace run failed", file=sys.stderr)
        sys.exit(2)
    report["interposer"], report["strace"] = ip, st
    found = surfaces_from(ip, st)
    alloc = ip["kinds"].get("alloc", 0)
    mem = {k: v for k, v in st["syscalls"].items() if k in MEM_SYSCALLS}
    print(f"  info    allocator traffic inside the window: {alloc} malloc-family calls, memory syscalls {mem or '{}'}")
    if found:
        for det, what in found:
            print(f"  BROKEN  surface reached inside the window [{det}]: {what}")
        broken.append("nondeterminism / fault surface reached")
    else:
        print("  ok      no clock, sleep, thread, random, file/socket/pipe or env call inside the window "
              "(libc interposer incl. vDSO clocks + strace -f incl. raw syscalls)")

    # -- 5. sensitivity of the two detectors
    report["canaries"] = {}
    for can in ("clock", "sleep", "thread", "random", "io"):
        cip, cst = run_interposed(can, a.reps, tmpdir), run_strace(can, a.reps, tmpdir)
        if cip is None or cst is None:
            tool_error.append(f"canary {can}: run failed")
            continue
        f = surfaces_from(cip, cst)
        report["canaries"][can] = [f"{d}: {w}" for d, w in f]
        if f:
            print(f"  ok      canary {can:<7} noticed by {sorted({d for d, _ in f})}: {f[0][1]}")
        else:
            print(f"  FAIL    canary {can:<7} NOT noticed")
            tool_error.append(f"canary {can} not noticed")

    # -- 6. the same three steps for the Python bindings (C17)
    if a.no_python:
        report["python"] = "skipped (--no-python)"
        print("  info    Python bindings (C17): skipped on request; static audit only")
    elif not build_python():
        tool_error.append("building the python extension module failed")
    else:
        base = [sys.executable, PYWORK]
        with ThreadPoolExecutor(max_workers=min(16, os.cpu_count() or 1)) as ex:
            pres = list(ex.map(lambda i: run_plain(i, 1, base), range(a.processes)))
        pbad = [i for i, r in enumerate(pres) if r[0] != 0 or r[1] is None]
        pdig = sorted({r[1] for r in pres if r[1]})
        pip, pst = run_interposed("none", 1, tmpdir, base), run_strace("none", 1, tmpdir, base)
        report["python"] = {"processes": a.processes, "distinct_digests": pdig, "items_per_process": pres[0][2],
                            "failed_processes": pbad, "interposer": pip, "strace": pst,
                            "extra_perturbation": "PYTHONHASHSEED fixed-per-process and random"}
        if pbad or pip is None or pst is None:
            tool_error.append(f"python workload failed (processes {pbad})")
            if pbad:
                print(pres[pbad[0]][3][-2000:], file=sys.stderr)
        else:
            print(f"python:   {pres[0][2]} results per run through the extension module (C17)")
            if len(pdig) == 1:
                print(f"  ok      one digest {pdig[0]} in {a.processes} fresh interpreters (PYTHONHASHSEED varied)")
            else:
                print(f"  BROKEN  {len(pdig)} distinct digests across interpreters: {pdig}")
                broken.append("python result digest differs between processes")
            pfound = surfaces_from(pip, pst)
            print(f"  info    allocator traffic inside the window: {pip['kinds'].get('alloc', 0)} malloc-family calls")
            if pfound:
                for det, what in pfound:
                    print(f"  BROKEN  surface reached inside the window [{det}]: {what}")
                broken.append("python: nondeterminism / fault surface reached")
            else:
                print("  ok      no clock, sleep, thread, random, file/socket/pipe or env call inside the window")
            cip, cst = run_interposed("clock", 1, tmpdir, base), run_strace("clock", 1, tmpdir, base)
            cf = surfaces_from(cip, cst) if cip and cst else []
            report["python"]["canary_clock"] = [f"{d}: {w}" for d, w in cf]
            if cf:
                print(f"  ok      canary clock   noticed by {sorted({d for d, _ in cf})}: {cf[0][1]}")
            else:
                tool_error.append("python canary clock not noticed")

    report["wall_s"] = round(time.time() - t0, 2)
    report["result"] = "tool_error" if tool_error else ("premise_broken" if broken else "premises_hold")
    report["broken"], report["tool_errors"] = broken, tool_error
    if a.json:
        with open(a.json, "w") as fh:
            json.dump(report, fh, indent=1, sort_keys=True)
    shutil.rmtree(tmpdir, ignore_errors=True)
    if tool_error:
        print("RESULT: audit unusable: " + "; ".join(tool_error))
        sys.exit(2)
    if broken:
        print("RESULT: a premise no longer holds (" + "; ".join(broken) + ") -> revisit DESIGN.md section 7")
        sys.exit(3)
    print(f"RESULT: premises hold on the current tree: the observed surface of C01-C18 is deterministic and "
          f"touches no scheduler, clock, entropy source or descriptor ({report['wall_s']} s)")
    sys.exit(0)


if __name__ == "__main__":
    main()
