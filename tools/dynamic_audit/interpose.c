/* LD_PRELOAD interposer for the dynamic applicability audit (DESIGN.md section 8).
 * Counts, between two getppid() marker calls made by the workload, every libc entry point
 * through which a process can meet nondeterminism or a fault: clocks (also the vDSO ones strace
 * cannot see), sleeps, threads, randomness, file/socket/pipe I/O, environment reads.
 * Allocator calls are counted separately: they are the only environment interaction expected.
 * The counts are written to $DST_AUDIT_OUT when the window closes. */
#define _GNU_SOURCE
#include <dlfcn.h>
#include <stdarg.h>
#include <stddef.h>
char *getenv(const char *);
#include <stdint.h>
#include <string.h>
#include <sys/syscall.h>
#include <sys/types.h>
#include <unistd.h>

static volatile int armed = 0;
static int windows = 0;

enum { K_CLOCK, K_SLEEP, K_THREAD, K_RANDOM, K_IO, K_ENV, K_ALLOC, K_RAWSYSCALL, K_N };
static const char *kname[K_N] = {"clock", "sleep", "thread", "random", "io", "env", "alloc", "raw_syscall"};
static unsigned long kcount[K_N];
#define MAXF 96
static const char *fname[MAXF];
static unsigned long fcount[MAXF];
static int nf = 0;
static long rawnr[64];
static int nraw = 0;

static void hit(int kind, const char *name) {
    if (!armed) return;
    kcount[kind]++;
    for (int i = 0; i < nf; i++)
        if (fname[i] == name) { fcount[i]++; return; }
    if (nf < MAXF) { fname[nf] = name; fcount[nf] = 1; nf++; }
}

static char *put(char *p, const char *s) { while (*s) *p++ = *s++; return p; }
static char *putn(char *p, unsigned long v) {
    char t[24]; int n = 0;
    if (!v) t[n++] = '0';
    while (v) { t[n++] = '0' + (v % 10); v /= 10; }
    while (n) *p++ = t[--n];
    return p;
}

static void dump(void) {
    const char *out = getenv("DST_AUDIT_OUT");
    if (!out) return;
    static char buf[8192];
    char *p = buf;
    p = put(p, "windows "); p = putn(p, (unsigned long)windows); *p++ = '\n';
    for (int k = 0; k < K_N; k++) { p = put(p, "kind "); p = put(p, kname[k]); *p++ = ' '; p = putn(p, kcount[k]); *p++ = '\n'; }
    for (int i = 0; i < nf; i++) { p = put(p, "fn "); p = put(p, fname[i]); *p++ = ' '; p = putn(p, fcount[i]); *p++ = '\n'; }
    for (int i = 0; i < nraw; i++) { p = put(p, "rawnr "); p = putn(p, (unsigned long)rawnr[i]); *p++ = '\n'; }
    long fd = syscall(SYS_openat, -100 /*AT_FDCWD*/, out, 01101 /*O_WRONLY|O_CREAT|O_TRUNC*/, 0644);
    if (fd >= 0) { syscall(SYS_write, fd, buf, (size_t)(p - buf)); syscall(SYS_close, fd); }
}

static long raw_getppid(void) {
    long ret;
    __asm__ volatile("syscall" : "=a"(ret) : "a"((long)SYS_getppid) : "rcx", "r11", "memory");
    return ret;
}

pid_t getppid(void) {
    pid_t r = (pid_t)raw_getppid();
    if (!armed) { armed = 1; }
    else { armed = 0; windows++; dump(); }
    return r;
}

#define NEXT(ret, name, ...) static ret (*real)(__VA_ARGS__) = 0; if (!real) real = (ret (*)(__VA_ARGS__))dlsym(RTLD_NEXT, #name)

/* ---- clocks ---- */
struct timespec; struct timeval;
int clock_gettime(int c, struct timespec *t) { NEXT(int, clock_gettime, int, struct timespec *); hit(K_CLOCK, "clock_gettime"); return real(c, t); }
int clock_getres(int c, struct timespec *t) { NEXT(int, clock_getres, int, struct timespec *); hit(K_CLOCK, "clock_getres"); return real(c, t); }
int gettimeofday(struct timeval *tv, void *tz) { NEXT(int, gettimeofday, struct timeval *, void *); hit(K_CLOCK, "gettimeofday"); return real(tv, tz); }
long time(long *t) { NEXT(long, time, long *); hit(K_CLOCK, "time"); return real(t); }
/* ---- sleeps ---- */
int nanosleep(const struct timespec *a, struct timespec *b) { NEXT(int, nanosleep, const struct timespec *, struct timespec *); hit(K_SLEEP, "nanosleep"); return real(a, b); }
int clock_nanosleep(int c, int f, const struct timespec *a, struct timespec *b) { NEXT(int, clock_nanosleep, int, int, const struct timespec *, struct timespec *); hit(K_SLEEP, "clock_nanosleep"); return real(c, f, a, b); }
int usleep(unsigned u) { NEXT(int, usleep, unsigned); hit(K_SLEEP, "usleep"); return real(u); }
unsigned sleep(unsigned u) { NEXT(unsigned, sleep, unsigned); hit(K_SLEEP, "sleep"); return real(u); }
/* ---- threads ---- */
int pthread_create(void *t, const void *a, void *(*f)(void *), void *arg) { NEXT(int, pthread_create, void *, const void *, void *(*)(void *), void *); hit(K_THREAD, "pthread_create"); return real(t, a, f, arg); }
int pthread_mutex_lock(void *m) { NEXT(int, pthread_mutex_lock, void *); hit(K_THREAD, "pthread_mutex_lock"); return real(m); }
int pthread_rwlock_rdlock(void *m) { NEXT(int, pthread_rwlock_rdlock, void *); hit(K_THREAD, "pthread_rwlock_rdlock"); return real(m); }
int pthread_rwlock_wrlock(void *m) { NEXT(int, pthread_rwlock_wrlock, void *); hit(K_THREAD, "pthread_rwlock_wrlock"); return real(m); }
int pthread_cond_wait(void *c, void *m) { NEXT(int, pthread_cond_wait, void *, void *); hit(K_THREAD, "pthread_cond_wait"); return real(c, m); }
int sched_yield(void) { NEXT(int, sched_yield, void); hit(K_THREAD, "sched_yield"); return real(); }
int sched_getaffinity(pid_t p, size_t n, void *m) { NEXT(int, sched_getaffinity, pid_t, size_t, void *); hit(K_THREAD, "sched_getaffinity"); return real(p, n, m); }
long sysconf(int n) { NEXT(long, sysconf, int); if (n == 84 /*_SC_NPROCESSORS_ONLN*/ || n == 83) hit(K_THREAD, "sysconf(nprocs)"); return real(n); }
/* ---- randomness ---- */
ssize_t getrandom(void *b, size_t n, unsigned f) { NEXT(ssize_t, getrandom, void *, size_t, unsigned); hit(K_RANDOM, "getrandom"); return real(b, n, f); }
int getentropy(void *b, size_t n) { NEXT(int, getentropy, void *, size_t); hit(K_RANDOM, "getentropy"); return real(b, n); }
int rand(void) { NEXT(int, rand, void); hit(K_RANDOM, "rand"); return real(); }
long random(void) { NEXT(long, random, void); hit(K_RANDOM, "random"); return real(); }
/* ---- I/O ---- */
int open(const char *p, int fl, ...) { NEXT(int, open, const char *, int, ...); va_list ap; va_start(ap, fl); int m = va_arg(ap, int); va_end(ap); hit(K_IO, "open"); return real(p, fl, m); }
int open64(const char *p, int fl, ...) { NEXT(int, open64, const char *, int, ...); va_list ap; va_start(ap, fl); int m = va_arg(ap, int); va_end(ap); hit(K_IO, "open64"); return real(p, fl, m); }
int openat(int d, const char *p, int fl, ...) { NEXT(int, openat, int, const char *, int, ...); va_list ap; va_start(ap, fl); int m = va_arg(ap, int); va_end(ap); hit(K_IO, "openat"); return real(d, p, fl, m); }
ssize_t read(int fd, void *b, size_t n) { NEXT(ssize_t, read, int, void *, size_t); hit(K_IO, "read"); return real(fd, b, n); }
ssize_t write(int fd, const void *b, size_t n) { NEXT(ssize_t, write, int, const void *, size_t); hit(K_IO, "write"); return real(fd, b, n); }
ssize_t pread64(int fd, void *b, size_t n, long o) { NEXT(ssize_t, pread64, int, void *, size_t, long); hit(K_IO, "pread64"); return real(fd, b, n, o); }
ssize_t pwrite64(int fd, const void *b, size_t n, long o) { NEXT(ssize_t, pwrite64, int, const void *, size_t, long); hit(K_IO, "pwrite64"); return real(fd, b, n, o); }
ssize_t readv(int fd, const void *v, int c) { NEXT(ssize_t, readv, int, const void *, int); hit(K_IO, "readv"); return real(fd, v, c); }
ssize_t writev(int fd, const void *v, int c) { NEXT(ssize_t, writev, int, const void *, int); hit(K_IO, "writev"); return real(fd, v, c); }
int socket(int a, int b, int c) { NEXT(int, socket, int, int, int); hit(K_IO, "socket"); return real(a, b, c); }
int connect(int a, const void *b, unsigned c) { NEXT(int, connect, int, const void *, unsigned); hit(K_IO, "connect"); return real(a, b, c); }
int pipe(int fd[2]) { NEXT(int, pipe, int *); hit(K_IO, "pipe"); return real(fd); }
int poll(void *f, unsigned long n, int t) { NEXT(int, poll, void *, unsigned long, int); hit(K_IO, "poll"); return real(f, n, t); }
int fsync(int fd) { NEXT(int, fsync, int); hit(K_IO, "fsync"); return real(fd); }
/* ---- environment ---- */
char *secure_getenv(const char *n) { NEXT(char *, secure_getenv, const char *); hit(K_ENV, "secure_getenv"); return real(n); }
/* getenv itself is used by dump(); count it only while armed (dump runs disarmed) */
char *getenv(const char *n) { NEXT(char *, getenv, const char *); hit(K_ENV, "getenv"); return real(n); }
/* ---- allocator (expected; informational) ---- */
extern void *__libc_malloc(size_t); extern void *__libc_calloc(size_t, size_t); extern void *__libc_realloc(void *, size_t);
extern void __libc_free(void *); extern void *__libc_memalign(size_t, size_t);
void *malloc(size_t n) { hit(K_ALLOC, "malloc"); return __libc_malloc(n); }
void *calloc(size_t a, size_t b) { hit(K_ALLOC, "calloc"); return __libc_calloc(a, b); }
void *realloc(void *p, size_t n) { hit(K_ALLOC, "realloc"); return __libc_realloc(p, n); }
void free(void *p) { hit(K_ALLOC, "free"); __libc_free(p); }
int posix_memalign(void **o, size_t al, size_t n) { hit(K_ALLOC, "posix_memalign"); void *p = __libc_memalign(al, n); if (!p) return 12; *o = p; return 0; }
/* ---- raw syscall(2) wrapper: std reaches futex/getrandom/statx this way ---- */
long syscall(long nr, ...) {
    va_list ap; va_start(ap, nr);
    long a = va_arg(ap, long), b = va_arg(ap, long), c = va_arg(ap, long), d = va_arg(ap, long), e = va_arg(ap, long), f = va_arg(ap, long);
    va_end(ap);
    if (armed) {
        kcount[K_RAWSYSCALL]++;
        int seen = 0; for (int i = 0; i < nraw; i++) if (rawnr[i] == nr) seen = 1;
        if (!seen && nraw < 64) rawnr[nraw++] = nr;
    }
    register long r10 __asm__("r10") = d; register long r8 __asm__("r8") = e; register long r9 __asm__("r9") = f;
    long ret;
    __asm__ volatile("syscall" : "=a"(ret) : "a"(nr), "D"(a), "S"(b), "d"(c), "r"(r10), "r"(r8), "r"(r9) : "rcx", "r11", "memory");
    if (ret < 0 && ret > -4096) { extern int *__errno_location(void); *__errno_location() = (int)-ret; return -1; }
    return ret;
}
