//! Surface workload for the *dynamic* applicability audit (DESIGN.md §8).
//!
//! NOT a property check and not a simulation: it has no oracle.  It calls, once
//! each, the public operations at which C01-C16 and C18 are observed
//! (`observe_at` in properties.jsonl), between two `getppid()` marker calls, and
//! folds every result bit into one digest.  `run_audit.py` runs it under strace
//! and an LD_PRELOAD interposer and reports which system / libc calls num-dual
//! *and its dependencies* (nalgebra, simba, ndarray, matrixmultiply, serde,
//! serde_json, std) made inside the markers, and whether the digest is the same
//! in every process.  If no thread, clock, sleep, random, file or socket call is
//! ever made there is no source of nondeterminism a simulator could own.
//!
//! C17 (Python bindings) is not reachable from a Rust binary; its premises are
//! covered by the static audit only.

use nalgebra::{Const, DMatrix, DVector, Dyn, SMatrix, SVector, U1};
use ndarray::{arr1, arr2};
use num_dual::linalg::{jacobi_eigenvalue, norm, smallest_ev, LU};
use num_dual::*;
use std::fmt::Debug;

extern "C" {
    fn getppid() -> i32;
}

struct Sink {
    h: u64,
    items: u64,
    bytes: u64,
    sections: Vec<(&'static str, u64)>,
}

impl Sink {
    fn feed<T: Debug>(&mut self, v: &T) {
        let s = format!("{v:?}");
        for b in s.bytes() {
            self.h ^= b as u64;
            self.h = self.h.wrapping_mul(0x100000001b3);
        }
        self.h ^= 0xff;
        self.h = self.h.wrapping_mul(0x100000001b3);
        self.items += 1;
        self.bytes += s.len() as u64;
    }
    fn section(&mut self, name: &'static str) {
        self.sections.push((name, self.items));
    }
}

/// C01, C09, C10, C15, C14 (via BesselDual where Copy): every elementary function of the interface.
fn elementary<D: DualNum<f64> + Clone + Debug>(x: &D, s: &mut Sink) {
    let small = x.clone() * 0.25;
    s.feed(&x.recip());
    s.feed(&x.sqrt());
    s.feed(&x.cbrt());
    s.feed(&(-x.clone()).cbrt());
    s.feed(&x.exp());
    s.feed(&x.exp2());
    s.feed(&x.exp_m1());
    s.feed(&x.ln());
    s.feed(&x.log(2.5));
    s.feed(&x.log2());
    s.feed(&x.log10());
    s.feed(&x.ln_1p());
    s.feed(&x.sin());
    s.feed(&x.cos());
    s.feed(&x.sin_cos());
    s.feed(&x.tan());
    s.feed(&small.asin());
    s.feed(&small.acos());
    s.feed(&x.atan());
    s.feed(&x.atan2(small.clone() + 2.0));
    s.feed(&x.sinh());
    s.feed(&x.cosh());
    s.feed(&x.tanh());
    s.feed(&x.asinh());
    s.feed(&(x.clone() + 1.0).acosh());
    s.feed(&small.atanh());
    for n in [-3, -1, 0, 1, 2, 3, 5, 70] {
        s.feed(&x.powi(n));
    }
    for p in [-1.5, 0.0, 1.0, 2.0, 2.0 + 1e-16, 2.5, 3.0] {
        s.feed(&x.powf(p));
    }
    s.feed(&x.powd(small.clone()));
    s.feed(&x.sph_j0());
    s.feed(&x.sph_j1());
    s.feed(&x.sph_j2());
    s.feed(&(x.clone() * 1e-20).sph_j0());
    s.feed(&(x.clone() * 1e-20).sph_j1());
    s.feed(&(x.clone() * 1e-20).sph_j2());
    s.feed(&(-x.clone()).abs());
    s.feed(&(-x.clone()).signum());
    s.feed(&x.mul_add(small.clone(), x.clone()));
    s.feed(&x.is_positive());
    s.feed(&x.is_negative());
    s.feed(&x.is_zero());
    s.feed(&x.is_one());
}

/// C02, C03, C07, C08: arithmetic in every syntactic form, compound assignment, sum/product.
fn arithmetic<D: DualNum<f64> + Clone + Debug>(x: &D, y: &D, s: &mut Sink) {
    s.feed(&(x.clone() + y.clone()));
    s.feed(&(x.clone() - y.clone()));
    s.feed(&(x.clone() * y.clone()));
    s.feed(&(x.clone() / y.clone()));
    s.feed(&(x.clone() + y));
    s.feed(&(x.clone() - y));
    s.feed(&(x.clone() * y));
    s.feed(&(x.clone() / y));
    s.feed(&(-x.clone()));
    s.feed(&(x.clone() + 1.5));
    s.feed(&(x.clone() - 1.5));
    s.feed(&(x.clone() * 1.5));
    s.feed(&(x.clone() / 1.5));
    let mut acc = D::from(2.0);
    acc += x.clone();
    s.feed(&acc);
    acc -= y.clone();
    s.feed(&acc);
    acc *= x.clone();
    s.feed(&acc);
    acc /= y.clone();
    s.feed(&acc);
    acc += 0.5;
    acc -= 0.25;
    acc *= 3.0;
    acc /= 7.0;
    s.feed(&acc);
    s.feed(&x.clone().inv());
    s.feed(&[x.clone(), y.clone(), acc.clone()].into_iter().sum::<D>());
    s.feed(&[x.clone(), y.clone(), acc.clone()].into_iter().product::<D>());
    s.feed(&D::from_f64(3.25));
    s.feed(&D::from_i32(-7));
    s.feed(&D::zero());
    s.feed(&D::one());
    // a small program (C03): shared subexpressions, constants, several operations
    let t = (x.clone() * y).sin() + x.exp() / (y.clone() * y + 1.0);
    let u = (t.clone() * t.clone() + 2.0).sqrt().ln() - t.tanh() * x.powi(3);
    s.feed(&u);
    s.feed(&(x == y));
}

fn bessel<D: BesselDual + Debug>(x: D, s: &mut Sink) {
    for a in [-7.5, -5.0, -1e-6, 0.0, 1e-6, 1.2, 5.0, 5.000000000000001, 40.0] {
        let z = x * a;
        s.feed(&z.bessel_j0());
        s.feed(&z.bessel_j1());
        s.feed(&z.bessel_j2());
    }
}

fn c11_field<D>(x: D, y: D, s: &mut Sink)
where
    D: nalgebra::RealField + Debug + Clone,
{
    use nalgebra::{ComplexField, RealField};
    s.feed(&D::pi());
    s.feed(&D::two_pi());
    s.feed(&D::frac_pi_2());
    s.feed(&D::frac_pi_3());
    s.feed(&D::frac_pi_4());
    s.feed(&D::frac_pi_6());
    s.feed(&D::frac_pi_8());
    s.feed(&D::frac_1_pi());
    s.feed(&D::frac_2_pi());
    s.feed(&D::frac_2_sqrt_pi());
    s.feed(&D::e());
    s.feed(&D::log2_e());
    s.feed(&D::log10_e());
    s.feed(&D::ln_2());
    s.feed(&D::ln_10());
    s.feed(&RealField::min(x.clone(), y.clone()));
    s.feed(&RealField::max(x.clone(), y.clone()));
    s.feed(&RealField::clamp(x.clone(), y.clone(), y.clone() + D::one()));
    s.feed(&RealField::copysign(x.clone(), -y.clone()));
    s.feed(&RealField::atan2(x.clone(), y.clone()));
    s.feed(&ComplexField::abs(-x.clone()));
    s.feed(&ComplexField::sqrt(x.clone()));
    s.feed(&ComplexField::powf(x.clone(), y.clone()));
    s.feed(&ComplexField::powc(x.clone(), y.clone()));
    s.feed(&ComplexField::log(x.clone(), y.clone() + D::one()));
    s.feed(&ComplexField::hypot(x.clone(), y.clone()));
    s.feed(&ComplexField::sin_cos(x.clone()));
    s.feed(&ComplexField::real(x.clone()));
    s.feed(&ComplexField::modulus_squared(x.clone()));
    s.feed(&ComplexField::try_sqrt(x.clone()));
    s.feed(&(x.clone() < y.clone()));
    s.feed(&(x.clone() >= y.clone()));
    s.feed(&x.partial_cmp(&y));
    let sp = D::splat(x.clone().extract(0));
    s.feed(&sp);
    let mut r = x.clone();
    r.replace(0, y.clone().extract(0));
    s.feed(&r);
    s.feed(&x.clone().select(true, y.clone()));
    s.feed(&x.select(false, y));
}

fn workload(s: &mut Sink) {
    // ---- operands of every type -------------------------------------------------------------
    let d = Dual64::new(1.3, -0.7);
    let d_y = Dual64::new(0.6, 2.5);
    let d2 = Dual2_64::new(1.3, -0.7, 0.4);
    let d2_y = Dual2_64::new(0.6, 2.5, -1.5);
    let d3 = Dual3_64::new(1.3, -0.7, 0.4, 1.9);
    let d3_y = Dual3_64::new(0.6, 2.5, -1.5, 0.3);
    let hd = HyperDual64::new(1.3, -0.7, 0.4, 1.9);
    let hd_y = HyperDual64::new(0.6, 2.5, -1.5, 0.3);
    let hhd = HyperHyperDual64::new(1.3, -0.7, 0.4, 1.9, 0.2, -1.1, 0.9, 3.0);
    let hhd_y = HyperHyperDual64::new(0.6, 2.5, -1.5, 0.3, -0.2, 1.1, 0.5, -2.0);
    let sv = DualSVec64::<3>::new(1.3, Derivative::some(SVector::from([-0.7, 0.4, 1.9])));
    let sv_y = DualSVec64::<3>::new(0.6, Derivative::some(SVector::from([2.5, -1.5, 0.3])));
    let sv_c = DualSVec64::<3>::from_re(0.6);
    let dv = DualDVec64::new(1.3, Derivative::some(DVector::from_vec(vec![-0.7, 0.4, 1.9, 0.1])));
    let dv_y = DualDVec64::new(0.6, Derivative::some(DVector::from_vec(vec![2.5, -1.5, 0.3, -0.9])));
    let dv_c = DualDVec64::from_re(0.6);
    let s2 = Dual2SVec64::<2>::new(
        1.3,
        Derivative::some(SMatrix::<f64, 1, 2>::new(-0.7, 0.4)),
        Derivative::some(SMatrix::<f64, 2, 2>::new(1.9, 0.2, -1.1, 0.9)),
    );
    let s2_y = Dual2SVec64::<2>::new(
        0.6,
        Derivative::some(SMatrix::<f64, 1, 2>::new(2.5, -1.5)),
        Derivative::none(),
    );
    let d2v = Dual2DVec64::new(
        1.3,
        Derivative::some(nalgebra::RowDVector::from_vec(vec![-0.7, 0.4])),
        Derivative::some(DMatrix::from_row_slice(2, 2, &[1.9, 0.2, -1.1, 0.9])),
    );
    let d2v_y = Dual2DVec64::new(0.6, Derivative::none(), Derivative::none());
    let hv = HyperDualSVec64::<2, 3>::new(
        1.3,
        Derivative::some(SVector::from([-0.7, 0.4])),
        Derivative::some(SMatrix::<f64, 1, 3>::new(1.9, 0.2, -1.1)),
        Derivative::some(SMatrix::<f64, 2, 3>::new(0.9, 3.0, 0.5, -2.0, 1.0, 0.1)),
    );
    let hv_y = HyperDualSVec64::<2, 3>::new(
        0.6,
        Derivative::none(),
        Derivative::some(SMatrix::<f64, 1, 3>::new(2.5, -1.5, 0.3)),
        Derivative::none(),
    );
    let hdv = HyperDualDVec64::new(
        1.3,
        Derivative::some(DVector::from_vec(vec![-0.7, 0.4])),
        Derivative::some(nalgebra::RowDVector::from_vec(vec![1.9, 0.2, -1.1])),
        Derivative::some(DMatrix::from_row_slice(2, 3, &[0.9, 3.0, 0.5, -2.0, 1.0, 0.1])),
    );
    let hdv_y = HyperDualDVec64::from_re(0.6);
    let nested = Dual2::<Dual64, f64>::new(d, d_y, Dual64::new(0.2, 0.3));
    let nested_y = Dual2::<Dual64, f64>::new(d_y, d, Dual64::new(-0.4, 1.0));
    let d32 = Dual32::new(1.3, -0.7);
    let _ = d32;

    s.section("C01/C09/C10/C15 elementary functions, every type");
    elementary(&d, s);
    elementary(&d2, s);
    elementary(&d3, s);
    elementary(&hd, s);
    elementary(&hhd, s);
    elementary(&sv, s);
    elementary(&sv_c, s);
    elementary(&dv, s);
    elementary(&dv_c, s);
    elementary(&s2, s);
    elementary(&d2v, s);
    elementary(&hv, s);
    elementary(&hdv, s);
    elementary(&nested, s);
    elementary(&1.3f64, s);

    s.section("C02/C03/C06/C07/C08 arithmetic, every type and form");
    arithmetic(&d, &d_y, s);
    arithmetic(&d2, &d2_y, s);
    arithmetic(&d3, &d3_y, s);
    arithmetic(&hd, &hd_y, s);
    arithmetic(&hhd, &hhd_y, s);
    arithmetic(&sv, &sv_y, s);
    arithmetic(&sv, &sv_c, s);
    arithmetic(&sv_c, &sv_y, s);
    arithmetic(&dv, &dv_y, s);
    arithmetic(&dv, &dv_c, s);
    arithmetic(&dv_c, &dv_y, s);
    arithmetic(&s2, &s2_y, s);
    arithmetic(&s2_y, &s2, s);
    arithmetic(&d2v, &d2v_y, s);
    arithmetic(&d2v_y, &d2v, s);
    arithmetic(&hv, &hv_y, s);
    arithmetic(&hv_y, &hv, s);
    arithmetic(&hdv, &hdv_y, s);
    arithmetic(&hdv_y, &hdv, s);
    arithmetic(&nested, &nested_y, s);
    arithmetic(&1.3f64, &0.6f64, s);

    s.section("C14 cylindrical Bessel functions");
    bessel(d, s);
    bessel(d2, s);
    bessel(d3, s);
    bessel(hd, s);
    bessel(hhd, s);
    bessel(sv, s);
    bessel(nested, s);

    s.section("C04/C05 driver functions, static and dynamic");
    s.feed(&first_derivative(|x| x.powi(3) * x.sin(), 1.3));
    s.feed(&second_derivative(|x| x.powi(3) * x.sin(), 1.3));
    s.feed(&third_derivative(|x| x.powi(3) * x.sin(), 1.3));
    s.feed(&gradient(
        |v: SVector<DualSVec64<3>, 3>| v[0] * v[1].exp() + v[2].powi(2) * v[0],
        SVector::from([1.3, 0.6, -0.4]),
    ));
    s.feed(&gradient(
        |v: DVector<DualDVec64>| v[0].clone() * v[1].exp() + v[2].powi(2) * &v[0],
        DVector::from_vec(vec![1.3, 0.6, -0.4]),
    ));
    s.feed(&jacobian(
        |v: SVector<DualSVec64<3>, 3>| SVector::from([v[0] * v[1], v[2].sin() - v[0]]),
        SVector::from([1.3, 0.6, -0.4]),
    ));
    s.feed(&jacobian(
        |v: DVector<DualDVec64>| DVector::from_vec(vec![v[0].clone() * &v[1], v[2].sin() - &v[0]]),
        DVector::from_vec(vec![1.3, 0.6, -0.4]),
    ));
    s.feed(&hessian(
        |v: SVector<Dual2SVec64<3>, 3>| v[0] * v[1].exp() + v[2].powi(2) * v[0],
        SVector::from([1.3, 0.6, -0.4]),
    ));
    s.feed(&hessian(
        |v: DVector<Dual2DVec64>| v[0].clone() * v[1].exp() + v[2].powi(2) * &v[0],
        DVector::from_vec(vec![1.3, 0.6, -0.4]),
    ));
    s.feed(&second_partial_derivative(|x, y| x.powi(2) * y.sin(), 1.3, 0.6));
    s.feed(&partial_hessian(
        |x: SVector<HyperDualSVec64<2, 3>, 2>, y: SVector<HyperDualSVec64<2, 3>, 3>| {
            x[0] * y[1].exp() + x[1].powi(2) * y[0] * y[2]
        },
        SVector::from([1.3, 0.6]),
        SVector::from([-0.4, 0.9, 2.0]),
    ));
    s.feed(&partial_hessian(
        |x: DVector<HyperDualDVec64>, y: DVector<HyperDualDVec64>| {
            x[0].clone() * y[1].exp() + x[1].powi(2) * &y[0] * &y[2]
        },
        DVector::from_vec(vec![1.3, 0.6]),
        DVector::from_vec(vec![-0.4, 0.9, 2.0]),
    ));
    s.feed(&third_partial_derivative(|x, y, z| x.powi(2) * y.sin() * z.exp(), 1.3, 0.6, -0.4));
    s.feed(&third_partial_derivative_vec(
        |v: &[HyperHyperDual64]| v[0].powi(2) * v[1].sin() * v[2].exp() * v[3],
        &[1.3, 0.6, -0.4, 2.0],
        0,
        2,
        3,
    ));
    s.feed(&try_first_derivative(|_x: Dual64| Err::<Dual64, &str>("boom"), 1.3));
    s.feed(&try_gradient(
        |_v: DVector<DualDVec64>| Err::<DualDVec64, i32>(-7),
        DVector::from_vec(vec![1.3, 0.6]),
    ));
    s.feed(&try_hessian(
        |v: DVector<Dual2DVec64>| Ok::<_, ()>(v[0].clone() * &v[1]),
        DVector::from_vec(vec![1.3, 0.6]),
    ));

    s.section("C11 nalgebra field contract, C06 comparisons");
    c11_field(d, d_y, s);
    c11_field(d2, d2_y, s);
    c11_field(sv, sv_y, s);
    c11_field(dv.clone(), dv_y.clone(), s);
    c11_field(s2, s2_y, s);
    c11_field(d2v.clone(), d2v_y.clone(), s);
    c11_field(Dual32::new(1.3, -0.7), Dual32::new(0.6, 2.5), s);

    s.section("C12 linear algebra: own LU/Jacobi and nalgebra decompositions");
    let a = arr2(&[
        [Dual64::new(4.0, 1.0), Dual64::new(1.0, 0.5), Dual64::new(0.5, -1.0)],
        [Dual64::new(1.0, 0.5), Dual64::new(3.0, 2.0), Dual64::new(0.25, 0.0)],
        [Dual64::new(0.5, -1.0), Dual64::new(0.25, 0.0), Dual64::new(5.0, 0.3)],
    ]);
    let b = arr1(&[Dual64::new(1.0, 0.0), Dual64::new(-2.0, 1.0), Dual64::new(0.5, 0.5)]);
    let lu = LU::new(a.clone()).unwrap();
    s.feed(&lu.solve(&b));
    s.feed(&lu.determinant());
    s.feed(&lu.inverse());
    s.feed(&norm(&b));
    s.feed(&smallest_ev(a.clone()));
    s.feed(&jacobi_eigenvalue(a.clone(), 200));
    let sing = arr2(&[[Dual64::new(0.0, 1.0), Dual64::new(1.0, 0.0)], [Dual64::new(0.0, 2.0), Dual64::new(3.0, 0.0)]]);
    s.feed(&LU::new(sing).is_err());
    let m = SMatrix::<Dual64, 3, 3>::from_fn(|i, j| a[(i, j)]);
    s.feed(&m.try_inverse());
    s.feed(&m.determinant());
    s.feed(&m.lu().solve(&SVector::<Dual64, 3>::from_fn(|i, _| b[i])));
    s.feed(&m.symmetric_eigen().eigenvalues);
    s.feed(&m.norm());
    let md = DMatrix::<DualDVec64>::from_fn(2, 2, |i, j| {
        DualDVec64::new(
            (1 + i + 2 * j) as f64 + if i == j { 3.0 } else { 0.0 },
            Derivative::some(DVector::from_vec(vec![i as f64, j as f64 - 0.5])),
        )
    });
    s.feed(&md.clone().try_inverse());
    s.feed(&md.determinant());

    s.section("C13 subset/superset conversions, every width pair, present and absent parts");
    {
        use simba::scalar::{SubsetOf, SupersetOf};
        let w: Dual64 = Dual32::new(1.25, -0.5).to_superset();
        s.feed(&w);
        let n: Option<Dual32> = w.to_subset();
        s.feed(&n);
        s.feed(&<Dual64 as SupersetOf<Dual32>>::is_in_subset(&w));
        let wv: DualDVec64 = DualDVec32::new(1.25, Derivative::some(DVector::from_vec(vec![0.5, -2.0]))).to_superset();
        s.feed(&wv);
        let nv: Option<DualDVec32> = wv.to_subset();
        s.feed(&nv);
        let wc: DualDVec64 = DualDVec32::from_re(1.25).to_superset();
        s.feed(&wc);
        let nc: Option<DualDVec32> = wc.to_subset();
        s.feed(&nc);
        let ws: DualSVec64<3> = DualSVec32::<3>::new(1.25, Derivative::some(SVector::from([0.5, -2.0, 4.0]))).to_superset();
        s.feed(&ws);
        let ns: DualSVec32<3> = ws.to_subset_unchecked();
        s.feed(&ns);
        let w2: Dual2_64 = Dual2_32::new(1.25, -0.5, 3.0).to_superset();
        s.feed(&w2);
        let n2: Option<Dual2_32> = w2.to_subset();
        s.feed(&n2);
        let w2v: Dual2DVec64 = Dual2DVec32::new(
            1.25,
            Derivative::some(nalgebra::RowDVector::from_vec(vec![0.5, -2.0])),
            Derivative::none(),
        )
        .to_superset();
        s.feed(&w2v);
        let n2v: Option<Dual2DVec32> = w2v.to_subset();
        s.feed(&n2v);
        let lifted: DualDVec64 = <DualDVec64 as SupersetOf<f64>>::from_subset(&2.5f64);
        s.feed(&lifted);
        let lifted32: Dual2_64 = <Dual2_64 as SupersetOf<f32>>::from_subset(&2.5f32);
        s.feed(&lifted32);
        let back: Option<f64> = <DualDVec64 as SupersetOf<f64>>::to_subset(&wv);
        s.feed(&back);
        let q = nalgebra::Vector3::<f32>::new(1.0, 2.0, 3.0);
        let qd: nalgebra::Vector3<Dual64> = q.cast();
        s.feed(&qd);
        let qdd: nalgebra::Vector3<DualSVec64<2>> = nalgebra::convert(q.cast::<f64>());
        s.feed(&qdd);
        let mm = DMatrix::<DualDVec32>::from_fn(2, 2, |i, j| {
            DualDVec32::new((i + j) as f32, if i == j { Derivative::none() } else { Derivative::some(DVector::from_vec(vec![1.0, 2.0, 3.0])) })
        });
        let mm64: DMatrix<DualDVec64> = mm.cast();
        s.feed(&mm64);
        let mm32: Option<DMatrix<DualDVec32>> = nalgebra::try_convert(mm64);
        s.feed(&mm32);
    }

    s.section("C16 serde round trip through serde_json (string, Vec<u8> writer, slice reader, Value)");
    {
        macro_rules! rt {
            ($v:expr, $t:ty) => {{
                let v: $t = $v;
                let txt = serde_json::to_string(&v).unwrap();
                s.feed(&txt);
                let back: $t = serde_json::from_str(&txt).unwrap();
                s.feed(&back);
                let mut buf: Vec<u8> = Vec::new();
                serde_json::to_writer(&mut buf, &v).unwrap();
                let back2: $t = serde_json::from_reader(&buf[..]).unwrap();
                s.feed(&back2);
                let val = serde_json::to_value(&v).unwrap();
                s.feed(&val);
            }};
        }
        rt!(d, Dual64);
        rt!(Dual32::new(1.3, -0.7), Dual32);
        rt!(d2, Dual2_64);
        rt!(d3, Dual3_64);
        rt!(hd, HyperDual64);
        rt!(hhd, HyperHyperDual64);
        rt!(nested, Dual2<Dual64, f64>);
        rt!(Dual::<HyperDual64, f64>::new(hd, hd_y), Dual<HyperDual64, f64>);
    }

    s.section("C18 Display rendering of every type and presence pattern");
    s.feed(&d.to_string());
    s.feed(&d2.to_string());
    s.feed(&d3.to_string());
    s.feed(&hd.to_string());
    s.feed(&hhd.to_string());
    s.feed(&sv.to_string());
    s.feed(&sv_c.to_string());
    s.feed(&dv.to_string());
    s.feed(&dv_c.to_string());
    s.feed(&s2.to_string());
    s.feed(&s2_y.to_string());
    s.feed(&d2v.to_string());
    s.feed(&d2v_y.to_string());
    s.feed(&hv.to_string());
    s.feed(&hv_y.to_string());
    s.feed(&hdv.to_string());
    s.feed(&hdv_y.to_string());
    s.feed(&nested.to_string());
    s.feed(&format!("{:>30} {:.3} {:e}", d, d2, d.re));
    let _ = (Const::<1>, Dyn(1), U1);
}

/// Deliberate uses of each nondeterminism / fault surface, run *inside* the window on request, so
/// that `run_audit.py` can prove its two detectors (strace, interposer) would notice them.
fn canary(kind: &str) -> u64 {
    match kind {
        "clock" => std::time::Instant::now().elapsed().as_nanos() as u64,
        "sleep" => {
            std::thread::sleep(std::time::Duration::from_millis(1));
            0
        }
        "thread" => std::thread::spawn(|| 7u64).join().unwrap(),
        "random" => {
            let mut m = std::collections::HashMap::new();
            m.insert(1u32, 2u64);
            m[&1]
        }
        "io" => std::fs::read("/proc/self/stat").map(|v| v.len() as u64).unwrap_or(0),
        "none" => 0,
        other => panic!("unknown canary {other}"),
    }
}

fn main() {
    let reps: u32 = std::env::args().nth(1).and_then(|a| a.parse().ok()).unwrap_or(1);
    let can = std::env::args().nth(2).unwrap_or_else(|| "none".to_string());
    let mut s = Sink { h: 0xcbf29ce484222325, items: 0, bytes: 0, sections: Vec::new() };
    // warm-up allocation so that the first-use costs of the allocator are outside the window
    let warm: Vec<u8> = Vec::with_capacity(1 << 16);
    drop(warm);
    unsafe { getppid() }; // ---- marker: window opens
    for _ in 0..reps {
        workload(&mut s);
    }
    let c = canary(&can);
    unsafe { getppid() }; // ---- marker: window closes
    println!("digest={:016x} items={} bytes={} canary={}:{}", s.h, s.items, s.bytes, can, c.min(1));
    let per = s.sections.len() / reps as usize;
    for (name, at) in s.sections.iter().take(per) {
        println!("section at_item={at} {name}");
    }
}
