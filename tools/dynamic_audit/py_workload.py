"""Surface workload for C17 (Python bindings) in the dynamic applicability audit (DESIGN.md section 8).
Not a property check: no oracle.  Calls the operations C17 is observed at between two os.getppid()
markers and prints one digest of every repr()."""
import os
import sys

import num_dual as nd

H = 0xcbf29ce484222325
ITEMS = 0


def feed(v):
    global H, ITEMS
    for b in repr(v).encode():
        H = ((H ^ b) * 0x100000001b3) & 0xFFFFFFFFFFFFFFFF
    H = ((H ^ 0xFF) * 0x100000001b3) & 0xFFFFFFFFFFFFFFFF
    ITEMS += 1


UNARY = ["recip", "sqrt", "cbrt", "exp", "exp2", "expm1", "log", "log2", "log10", "log1p", "sin", "cos", "tan",
         "sin_cos", "arctan", "sinh", "cosh", "tanh", "arcsinh", "sph_j0", "sph_j1", "sph_j2"]


def scalar_surface(x, y):
    for m in UNARY:
        feed(getattr(x, m)())
    small = x * 0.25
    feed(small.arcsin()); feed(small.arccos()); feed(small.arctanh()); feed((x + 1.0).arccosh())
    feed(x.log_base(2.5)); feed(x.powi(3)); feed(x.powi(-2)); feed(x.powf(2.5)); feed(x.powd(y)); feed(x.mul_add(y, x))
    feed(x + y); feed(x - y); feed(x * y); feed(x / y); feed(-x)
    feed(x + 1.5); feed(1.5 + x); feed(x - 1.5); feed(1.5 - x); feed(x * 1.5); feed(1.5 * x); feed(x / 1.5); feed(1.5 / x)
    feed(x + 2); feed(2 - x)
    feed(x ** 3); feed(x ** 2.5); feed(x ** y)
    feed(x.value); feed(repr(x)); feed(str(x))
    for getter in ("first_derivative", "second_derivative", "third_derivative"):
        if hasattr(x, getter):
            feed(getattr(x, getter))


def f_scalar(v):
    return v[0] * v[len(v) // 2].exp() + (v[-1] * v[0]).sin()


def workload():
    scalar_surface(nd.Dual64(1.3, -0.7), nd.Dual64(0.6, 2.5))
    scalar_surface(nd.Dual2_64(1.3, -0.7, 0.4), nd.Dual2_64(0.6, 2.5, -1.5))
    scalar_surface(nd.Dual3_64(1.3, -0.7, 0.4, 1.9), nd.Dual3_64(0.6, 2.5, -1.5, 0.3))
    scalar_surface(nd.HyperDual64(1.3, -0.7, 0.4, 1.9), nd.HyperDual64(0.6, 2.5, -1.5, 0.3))
    feed(nd.Dual64.from_re(2.0))
    feed(nd.first_derivative(lambda t: t.sin() * t, 1.3))
    feed(nd.second_derivative(lambda t: t.sin() * t, 1.3))
    feed(nd.third_derivative(lambda t: t.sin() * t, 1.3))
    feed(nd.second_partial_derivative(lambda a, b: a.powi(2) * b.sin(), 1.3, 0.6))
    feed(nd.third_partial_derivative(lambda a, b, c: a.powi(2) * b.sin() * c.exp(), 1.3, 0.6, -0.4))
    feed(nd.third_partial_derivative_vec(lambda v: v[0].powi(2) * v[1].sin() * v[2].exp() * v[3], [1.3, 0.6, -0.4, 2.0], 0, 2, 3))
    for n in range(1, 13):  # fixed-size classes up to 10, dynamic beyond
        x = [1.3 + 0.1 * i for i in range(n)]
        feed(nd.gradient(f_scalar, x))
        feed(nd.hessian(f_scalar, x))
        if n <= 10:
            feed(nd.jacobian(lambda v: [v[0] * v[-1], v[0].sin()], x))
    feed(nd.partial_hessian(lambda a, b: a[0] * b[1].exp() + a[1].powi(2) * b[0], [1.3, 0.6], [-0.4, 0.9]))
    # the closure failing (the one "fault" a driver can meet)
    try:
        nd.gradient(lambda v: 1 / 0, [1.0, 2.0])
    except ZeroDivisionError as e:
        feed(("err", str(e)))
    try:
        nd.first_derivative(lambda t: [t], 1.0)
    except TypeError as e:
        feed(("err", str(e)))


def main():
    canary = sys.argv[1] if len(sys.argv) > 1 else "none"
    workload()  # warm-up: CPython's own lazy work (method caches, interned strings) stays outside the window
    global H, ITEMS
    H, ITEMS = 0xcbf29ce484222325, 0
    os.getppid()  # ---- window opens
    workload()
    if canary == "clock":
        import time as _t
        _t.monotonic()
    os.getppid()  # ---- window closes
    print(f"digest={H:016x} items={ITEMS} bytes=0 canary={canary}")


main()
