#!/usr/bin/env python3
"""Sensitivity of the registered checks: break the property on purpose, confirm the check says so, undo.

Each entry is a small textual edit of /repo (applied with a guard that the original text occurs exactly as
expected, reverted with `git checkout -- .` whatever happens) that violates C16, C17 or C18 while the crate still
compiles.  For each one the corresponding quick check must exit 1 with a VIOLATION line; on the clean tree it
must exit 0.  These are *my own* mutants (the independent ones are under /verif/seeded); they exist so that
a change to the simulators that makes them blind is noticed.

usage: sensitivity.py [C05|C16|C17|C18|all]        exit 0 = every mutant detected and the clean tree passes
"""
import subprocess
import sys

REPO = "/repo"
MUTANTS = [
    # ---- C18: what the text says (fault-free) -------------------------------------------------------------
    ("C18", "dual2 swaps v1 and v2", "src/dual2.rs", 'write!(f, "{} + {}ε1 + {}ε1²", self.re, self.v1, self.v2)', 'write!(f, "{} + {}ε1 + {}ε1²", self.re, self.v2, self.v1)'),
    ("C18", "dual prints a minus in front of eps", "src/dual.rs", 'write!(f, "{} + {}ε", self.re, self.eps)', 'write!(f, "{} - {}ε", self.re, self.eps)'),
    ("C18", "hyperdual prints eps1 twice", "src/hyperdual.rs", "self.re, self.eps1, self.eps2, self.eps1eps2\n        )\n    }\n}\n\nimpl_second", "self.re, self.eps1, self.eps1, self.eps1eps2\n        )\n    }\n}\n\nimpl_second"),
    ("C18", "matrix part loses its symbol", "src/derivative.rs", '(_, _) => write!(f, "{}", m)?,', '(_, _) => return write!(f, "{}", m),'),
    ("C18", "real part of DualVec printed with 12 digits", "src/dual_vec.rs", 'write!(f, "{}", self.re)?;\n        self.eps.fmt(f, "ε")', 'write!(f, "{:.12}", self.re)?;\n        self.eps.fmt(f, "ε")'),
    ("C18", "absent part printed as zero", "src/derivative.rs", '            write!(f, "{symbol}")?;\n        }\n        write!(f, "")', '            write!(f, "{symbol}")?;\n        } else {\n            write!(f, " + 0{symbol}")?;\n        }\n        write!(f, "")'),
    ("C18", "two symbols of HyperHyperDual exchanged", "src/hyperhyperdual.rs", '"{} + {}ε1 + {}ε2 + {}ε3 + {}ε1ε2 + {}ε1ε3 + {}ε2ε3 + {}ε1ε2ε3"', '"{} + {}ε1 + {}ε2 + {}ε3 + {}ε1ε3 + {}ε1ε2 + {}ε2ε3 + {}ε1ε2ε3"'),
    ("C18", "Dual3 drops the third-order part", "src/dual3.rs", '"{} + {}v1 + {}v2 + {}v3",\n            self.re, self.v1, self.v2, self.v3', '"{} + {}v1 + {}v2",\n            self.re, self.v1, self.v2'),
    # ---- C18: a reported success hides lost text (only under a sink fault) -----------------------------------
    ("C18", "symbol write error swallowed", "src/derivative.rs", '            write!(f, "{symbol}")?;\n        }\n        write!(f, "")', '            let _ = write!(f, "{symbol}");\n        }\n        write!(f, "")'),
    ("C18", "DualVec ignores an error while writing the real part", "src/dual_vec.rs", 'write!(f, "{}", self.re)?;\n        self.eps.fmt(f, "ε")', 'let _ = write!(f, "{}", self.re);\n        self.eps.fmt(f, "ε")'),
    ("C18", "Dual2Vec returns Ok after a failed first part", "src/dual2_vec.rs", 'self.v1.fmt(f, "ε1")?;', 'let _ = self.v1.fmt(f, "ε1");'),
    # ---- C05: orientation / seeding (fault-free), variants drifting apart, state left behind by a failing closure ------
    ("C05", "partial_hessian: unit directions of y assigned in reverse", "@patch", "/verif/tools/mutants05/m1_partial_hessian_y_seeds_reversed.diff", None),
    ("C05", "third_partial_derivative_vec: a repeated index loses a seed", "@patch", "/verif/tools/mutants05/m2_repeated_index_loses_a_seed.diff", None),
    ("C05", "second_derivative (infallible only) swaps its outputs", "@patch", "/verif/tools/mutants05/m3_infallible_second_derivative_swaps_outputs.diff", None),
    ("C05", "a depth counter left set by a failing closure changes later calls (history-dependent) and breaks nested calls", "@patch", "/verif/tools/mutants05/m4_depth_counter_left_set_by_a_failing_closure.diff", None),
    ("C05", "seeded C05-a", "@patch", "/verif/seeded/C05-a/patch.diff", None),
    ("C05", "seeded C05h-1: pooled argument buffer dirty after a failing closure", "@patch", "/verif/seeded/C05h-1/patch.diff", None),
    ("C05", "seeded C05h-2: seeded record overwritten by a nested call", "@patch", "/verif/seeded/C05h-2/patch.diff", None),
    ("C05", "seeded C05i-1: Jacobian rows shift up after a constant output", "@patch", "/verif/seeded/C05i-1/patch.diff", None),
    ("C05", "seeded C05i-2: symmetrised Hessian overflows above MAX/2", "@patch", "/verif/seeded/C05i-2/patch.diff", None),
    # ---- state shared between threads: found by the process-isolated search ------------------------------------------
    ("C18", "scratch buffer behind a global Mutex left dirty by a failed rendering", "@patch", "/verif/tools/mutants18/g1_global_scratch_buffer.diff", None),
    ("C05", "depth counter in a global atomic left set by a failing closure", "@patch", "/verif/tools/mutants05/g1_global_depth_counter.diff", None),
    ("C16", "flag in a global atomic left set by a failed deserialization", "@patch", "/verif/tools/mutants16/g1_global_flag.diff", None),
    ("C17", "first_derivative re-raises the callable's exception without its traceback", "@patch", "/verif/tools/mutants17/t1_traceback_stripped.diff", None),
    ("C17", "fixed-size first_derivative getter hands out its entries reversed", "src/python/dual.rs", "self.0.eps.0.map(|eps| eps.data.0[0])", "self.0.eps.0.map(|eps| { let mut a = eps.data.0[0]; a.reverse(); a })"),
    # ---- C16: stored form (fault-free), and errors of the data format swallowed (only under a fault at the seam) ------
    ("C16", "Dual: result of one serialize_field ignored (hand-written Serialize)", "@patch", "/verif/tools/mutants16/m1_ser_field_error_ignored.diff", None),
    ("C16", "Dual2: real part stored under another name", "@patch", "/verif/tools/mutants16/m2_field_renamed.diff", None),
    ("C16", "HyperDual: a zero mixed part is not stored", "@patch", "/verif/tools/mutants16/m3_zero_part_skipped.diff", None),
    ("C16", "Dual3: a nested part that fails to deserialize becomes zero", "@patch", "/verif/tools/mutants16/m4_de_error_replaced_by_zero.diff", None),
    ("C16", "HyperHyperDual: the phantom marker is stored", "@patch", "/verif/tools/mutants16/m5_marker_stored.diff", None),
    ("C16", "Dual: a thread-local flag left set by a failed deserialization changes the next one (history-dependent)", "@patch", "/verif/tools/mutants16/m6_stale_thread_local_flag.diff", None),
    ("C16", "seeded C16-a: zero-normalising serialize_with helper", "@patch", "/verif/seeded/C16-a/patch.diff", None),
    ("C16", "seeded C16h-1: tuple form for binary formats with two parts exchanged", "@patch", "/verif/seeded/C16h-1/patch.diff", None),
    ("C16", "seeded C16h-2: keys accepted only as borrowed strings", "@patch", "/verif/seeded/C16h-2/patch.diff", None),
    ("C16", "seeded C16h-3: map entries assigned by position", "@patch", "/verif/seeded/C16h-3/patch.diff", None),
    ("C16", "seeded C16i-4: error of the last part dropped by a builder", "@patch", "/verif/seeded/C16i-4/patch.diff", None),
    ("C16", "seeded C16i-5: wrong fields hint", "@patch", "/verif/seeded/C16i-5/patch.diff", None),
    ("C16", "seeded C16i-6: prefix-matching keys", "@patch", "/verif/seeded/C16i-6/patch.diff", None),
    # ---- round 6 changes that were missed at first try (kept here so that the corrections stay in place) ----------
    ("C17", "seeded C17h-1: argument list kept in a static and refilled in place", "@patch", "/verif/seeded/C17h-1/patch.diff", None),
    ("C17", "seeded C17i-1: in-place operators that mutate the object", "@patch", "/verif/seeded/C17i-1/patch.diff", None),
    ("C17", "seeded C17i-2: x ** (1/3) routed to cbrt", "@patch", "/verif/seeded/C17i-2/patch.diff", None),
    ("C18", "seeded C18h-2: dirty thread-local buffer after a failed rendering (history-dependent)", "@patch", "/verif/seeded/C18h-2/patch.diff", None),
    ("C18", "seeded C18i-1: chunks_exact(8) drops trailing entries", "@patch", "/verif/seeded/C18i-1/patch.diff", None),
    ("C18", "seeded C18i-2: all-zero matrix part rendered as absent", "@patch", "/verif/seeded/C18i-2/patch.diff", None),
    # ---- round 8 changes that were missed at first try --------------------------------------------------------------
    ("C16", "seeded C16k-1: integer field keys exchange two parts", "@patch", "/verif/seeded/C16k-1/patch.diff", None),
    ("C16", "seeded C16k-2: wrong field count announced to serialize_struct", "@patch", "/verif/seeded/C16k-2/patch.diff", None),
    ("C17", "seeded C17k-1: 0 + x returns x itself (sign of a zero)", "@patch", "/verif/seeded/C17k-1/patch.diff", None),
    ("C17", "seeded C17k-2: TypeErrors quoting an arity message are replaced", "@patch", "/verif/seeded/C17k-2/patch.diff", None),
    ("C18", "seeded C18k-2: separator lost every 1024 entries", "@patch", "/verif/seeded/C18k-2/patch.diff", None),
    ("C05", "seeded C05k-1: zero canonicalisation drops inner parts of nested entries", "@patch", "/verif/seeded/C05k-1/patch.diff", None),
    # ---- round 9 / 10 changes that were missed at first try -----------------------------------------------------------
    ("C05", "seeded C05m-1: absent -= r stores r", "@patch", "/verif/seeded/C05m-1/patch.diff", None),
    ("C05", "seeded C05n-1: symmetrised Hessian (rounding-dependent, overflows)", "@patch", "/verif/seeded/C05n-1/patch.diff", None),
    ("C16", "seeded C16m-1: deserialize_in_place skips 'equal' targets", "@patch", "/verif/seeded/C16m-1/patch.diff", None),
    ("C17", "seeded C17m-1: derivative parts taken out of the returned object", "@patch", "/verif/seeded/C17m-1/patch.diff", None),
    ("C17", "seeded C17m-2: flush-to-zero while the callable runs", "@patch", "/verif/seeded/C17m-2/patch.diff", None),
    # ---- round 11 (informed adversaries) -------------------------------------------------------------------------------
    ("C05", "seeded C05o-1: Jacobian strips of 128 outputs", "@patch", "/verif/seeded/C05o-1/patch.diff", None),
    ("C05", "seeded C05o-2: mirrored Hessian panics on an empty input vector", "@patch", "/verif/seeded/C05o-2/patch.diff", None),
    ("C16", "seeded C16o-1: visit_map returns without asking for the end of the map", "@patch", "/verif/seeded/C16o-1/patch.diff", None),
    ("C16", "seeded C16o-2: struct written under another name than it is read with", "@patch", "/verif/seeded/C16o-2/patch.diff", None),
    ("C17", "seeded C17o-2: format() differs from repr()", "@patch", "/verif/seeded/C17o-2/patch.diff", None),
    ("C18", "seeded C18o-1: non-square matrix part shown with the wrong shape", "@patch", "/verif/seeded/C18o-1/patch.diff", None),
    ("C18", "seeded C18o-2: buffer left dirty when the sink panics", "@patch", "/verif/seeded/C18o-2/patch.diff", None),
    # ---- round 13 (informed adversaries) -------------------------------------------------------------------------------
    ("C05", "seeded C05r-1: large static Jacobian filled column-major", "@patch", "/verif/seeded/C05r-1/patch.diff", None),
    ("C05", "seeded C05r-2: repeated indices lose seeds beyond 8 variables", "@patch", "/verif/seeded/C05r-2/patch.diff", None),
    ("C16", "seeded C16r-1: f32 presented for an f64 part goes through decimal text", "@patch", "/verif/seeded/C16r-1/patch.diff", None),
    ("C17", "seeded C17r-1: RuntimeWarning for out-of-domain functions", "@patch", "/verif/seeded/C17r-1/patch.diff", None),
    ("C17", "seeded C17r-2: blocked gradient beyond 32 variables", "@patch", "/verif/seeded/C17r-2/patch.diff", None),
    ("C18", "seeded C18r-1: matrix of dual-number entries shown with the wrong shape", "@patch", "/verif/seeded/C18r-1/patch.diff", None),
    ("C05", "seeded C05s-1: mixed block dropped when a first-order part of a hand-built result is absent", "@patch", "/verif/seeded/C05s-1/patch.diff", None),
    ("C05", "seeded C05s-2: symmetry assertion on the Hessian fires on rounding residue", "@patch", "/verif/seeded/C05s-2/patch.diff", None),
    ("C05", "seeded C05w-1: a -0.0 coordinate reaches the closure as +0.0", "@patch", "/verif/seeded/C05w-1/patch.diff", None),
    ("C17", "seeded C17w-2: gradient hands the callable a tuple for 11 variables and more", "@patch", "/verif/seeded/C17w-2/patch.diff", None),
    ("C17", "seeded C17s-2: a note attached to the callable's exception", "@patch", "/verif/seeded/C17s-2/patch.diff", None),
    ("C18", "seeded C18s-1: nested matrix part written as one flat list", "@patch", "/verif/seeded/C18s-1/patch.diff", None),
    ("C18", "seeded C18s-2: symbol written inside the closing bracket", "@patch", "/verif/seeded/C18s-2/patch.diff", None),
    ("C18", "seeded C18r-2: wide matrix fallback permutes entries", "@patch", "/verif/seeded/C18r-2/patch.diff", None),
    # ---- C17: conformance (fault-free) ---------------------------------------------------------------------
    ("C17", "arcsin forwards to asinh", "src/python_macro.rs", "self.0.asin().into()", "self.0.asinh().into()"),
    ("C17", "reflected subtraction with swapped operands", "src/python_macro.rs", "(-self.0.clone() + lhs).into()", "(self.0.clone() - lhs).into()"),
    ("C17", "reflected division with swapped operands", "src/python_macro.rs", "(self.0.recip() * lhs).into()", "(self.0.clone() / lhs).into()"),
    ("C17", "Dual2_64.second_derivative returns v1", "src/python/dual2.rs", "    fn get_second_derivative(&self) -> f64 {\n        self.0.v2", "    fn get_second_derivative(&self) -> f64 {\n        self.0.v1"),
    ("C17", "jacobian transposed", "src/python/dual.rs", "                        let eps: Vec<_> = eps\n                            .row_iter()", "                        let eps: Vec<_> = eps\n                            .transpose()\n                            .row_iter()"),
    ("C17", "float exponent truncated to an integer", "src/python_macro.rs", "return Ok(self.0.powf(r).into());", "return Ok(self.0.powi(r as i32).into());"),
    ("C17", "log1p forwards to ln", "src/python_macro.rs", "self.0.ln_1p().into()", "self.0.ln().into()"),
    ("C17", "HyperDual64.first_derivative swapped", "src/python/hyperdual.rs", "(self.0.eps1, self.0.eps2)", "(self.0.eps2, self.0.eps1)"),
    ("C17", "gradient of the dynamic branch reversed", "src/python/dual.rs", "try_gradient(g, DVector::from(x)).map(|(re, eps)| (re, eps.data.as_vec().clone()))", "try_gradient(g, DVector::from(x)).map(|(re, eps)| (re, eps.data.as_vec().iter().rev().cloned().collect()))"),
    ("C17", "repr uses Debug", "src/python_macro.rs", "Ok(self.0.to_string())", 'Ok(format!("{:?}", self.0))'),
    # ---- C17: the repaired defect, brought back (multi-step: the second use of the operand sees the damage) ----
    ("C17", "fix aee8088 reverted: x (op) object-array overwrites the operand", "@patch", "/verif/seeded/C17-regress/patch.diff", None),
    # ---- C17: callback faults ------------------------------------------------------------------------------
    ("C17", "second_derivative replaces the callable's exception", "src/python/dual2.rs", "        let res = f.call1((PyDual2_64::from(x),))?;", '        let res = f.call1((PyDual2_64::from(x),)).map_err(|_| PyErr::new::<PyTypeError, _>("callback failed".to_string()))?;'),
]


# Negative controls: renderings that differ from the pinned one only in what C18 does NOT promise (separators,
# brackets, spacing, line breaks).  The check must stay silent on them (exit 0): they guard against an oracle
# that demands more than the property states.
CONTROLS = [
    # changes judged NOT to break the property as stated (recorded in DESIGN.md section 9): the checks stay silent on them
    ("C16", "seeded C16r-2: integers refused for float parts (legitimate strictness)", "@patch", "/verif/seeded/C16r-2/patch.diff", None),
    ("C17", "seeded C17o-1: __eq__ / __hash__ on the real part (mirrors Rust's PartialEq)", "@patch", "/verif/seeded/C17o-1/patch.diff", None),
    ("C16", "seeded C16s-1: missing parts default to zero (legitimate leniency)", "@patch", "/verif/seeded/C16s-1/patch.diff", None),
    ("C16", "seeded C16s-2: field keys accepted as strings only (legitimate strictness)", "@patch", "/verif/seeded/C16s-2/patch.diff", None),
    ("C17", "seeded C17s-1: jacobian accepts a list only (what its message documents)", "@patch", "/verif/seeded/C17s-1/patch.diff", None),
    # C16 promises names, values and completeness - not the order of the fields, the struct's name, or strictness
    ("C16", "Dual: fields declared (and therefore written) in another order", "@patch", "/verif/tools/controls16/k1_fields_declared_in_another_order.diff", None),
    ("C16", "Dual2: an alias accepted on input", "@patch", "/verif/tools/controls16/k2_alias_accepted.diff", None),
    ("C16", "HyperDual: deny_unknown_fields", "@patch", "/verif/tools/controls16/k3_deny_unknown_fields.diff", None),
    ("C16", "Dual3: the struct's serde name changed", "@patch", "/verif/tools/controls16/k4_struct_renamed.diff", None),
    ("C18", "Dual: no spaces around +, a space before the symbol", "src/dual.rs", 'write!(f, "{} + {}ε", self.re, self.eps)', 'write!(f, "{}+{} ε", self.re, self.eps)'),
    ("C18", "vector parts in parentheses separated by semicolons", "src/derivative.rs", 'write!(f, "[{}]", x.join(", "))?', 'write!(f, "({})", x.join("; "))?'),
    ("C18", "HyperHyperDual: one part per line", "src/hyperhyperdual.rs", '"{} + {}ε1 + {}ε2 + {}ε3 + {}ε1ε2 + {}ε1ε3 + {}ε2ε3 + {}ε1ε2ε3"', '"{}\\n + {}ε1\\n + {}ε2\\n + {}ε3\\n + {}ε1ε2\\n + {}ε1ε3\\n + {}ε2ε3\\n + {}ε1ε2ε3"'),
    ("C18", "optional parts joined with a comma instead of a plus", "src/derivative.rs", '            write!(f, " + ")?;', '            write!(f, ", ")?;'),
    # independent property-preserving changes (seeded/keep-*): streamed / inline-matrix rendering, buffered single write,
    # parentheses around nested parts, brackets for one-element parts; refactored operators, single conversion of driver
    # inputs with other exception types, lenient callback results, fixed-size dispatch only up to 6
    ("C05", "keep-C05p2", "@patch", "/verif/seeded/keep-C05p2/patch.diff", None),
    ("C05", "keep-C05p3", "@patch", "/verif/seeded/keep-C05p3/patch.diff", None),
    ("C16", "keep-C16p1", "@patch", "/verif/seeded/keep-C16p1/patch.diff", None),
    ("C16", "keep-C16p2", "@patch", "/verif/seeded/keep-C16p2/patch.diff", None),
    ("C16", "keep-C16p3", "@patch", "/verif/seeded/keep-C16p3/patch.diff", None),
    ("C05", "keep-C05r1", "@patch", "/verif/seeded/keep-C05r1/patch.diff", None),
    ("C05", "keep-C05r2", "@patch", "/verif/seeded/keep-C05r2/patch.diff", None),
    ("C16", "keep-C16r1", "@patch", "/verif/seeded/keep-C16r1/patch.diff", None),
    ("C16", "keep-C16r2", "@patch", "/verif/seeded/keep-C16r2/patch.diff", None),
    ("C17", "keep-C17r1", "@patch", "/verif/seeded/keep-C17r1/patch.diff", None),
    ("C17", "keep-C17r2", "@patch", "/verif/seeded/keep-C17r2/patch.diff", None),
    ("C18", "keep-C18r1", "@patch", "/verif/seeded/keep-C18r1/patch.diff", None),
    ("C18", "keep-C18r2", "@patch", "/verif/seeded/keep-C18r2/patch.diff", None),
    ("C18", "keep-C18p-1", "@patch", "/verif/seeded/keep-C18p-1/patch.diff", None),
    ("C18", "keep-C18p-2", "@patch", "/verif/seeded/keep-C18p-2/patch.diff", None),
    ("C18", "keep-C18p-3", "@patch", "/verif/seeded/keep-C18p-3/patch.diff", None),
    ("C18", "keep-C18p-4", "@patch", "/verif/seeded/keep-C18p-4/patch.diff", None),
    ("C17", "keep-C17p-1", "@patch", "/verif/seeded/keep-C17p-1/patch.diff", None),
    ("C17", "keep-C17p-2", "@patch", "/verif/seeded/keep-C17p-2/patch.diff", None),
    ("C17", "keep-C17p-3", "@patch", "/verif/seeded/keep-C17p-3/patch.diff", None),
    ("C17", "keep-C17p-4", "@patch", "/verif/seeded/keep-C17p-4/patch.diff", None),
    # round 16
    ("C05", "keep-C05u1", "@patch", "/verif/seeded/keep-C05u1/patch.diff", None),
    ("C05", "keep-C05u2", "@patch", "/verif/seeded/keep-C05u2/patch.diff", None),
    ("C16", "keep-C16u1", "@patch", "/verif/seeded/keep-C16u1/patch.diff", None),
    ("C16", "keep-C16u2", "@patch", "/verif/seeded/keep-C16u2/patch.diff", None),
    ("C17", "keep-C17u1", "@patch", "/verif/seeded/keep-C17u1/patch.diff", None),
    ("C17", "keep-C17u2", "@patch", "/verif/seeded/keep-C17u2/patch.diff", None),
    ("C18", "keep-C18u1", "@patch", "/verif/seeded/keep-C18u1/patch.diff", None),
    ("C18", "keep-C18u2", "@patch", "/verif/seeded/keep-C18u2/patch.diff", None),
]


def sh(cmd):
    return subprocess.run(cmd, capture_output=True, text=True)


def clean():
    return sh(["git", "-C", REPO, "status", "--porcelain", "--untracked-files=no"]).stdout.strip() == ""


def main():
    which = sys.argv[1] if len(sys.argv) > 1 else "all"
    if not clean():
        sys.exit("refusing: /repo has local changes")
    import atexit
    import shutil
    import tempfile
    backup = tempfile.mkdtemp(prefix="evidence_backup_")
    shutil.copytree("/verif/evidence", backup, dirs_exist_ok=True)
    # every check run rewrites the evidence file; the committed evidence must describe the clean tree
    atexit.register(lambda: (shutil.copytree(backup, "/verif/evidence", dirs_exist_ok=True), shutil.rmtree(backup, ignore_errors=True)))
    ok = True
    for prop in ("C05", "C16", "C17", "C18"):
        if which in (prop, "all"):
            r = sh(["/verif/check.sh", prop, "quick"])
            good = r.returncode == 0 and "VIOLATION" not in r.stdout
            ok &= good
            print(f"{'ok  ' if good else 'FAIL'} {prop} clean tree: exit {r.returncode}")
    for prop, name, path, old, new in MUTANTS:
        if which not in (prop, "all"):
            continue
        full = f"{REPO}/{path}"
        try:
            if path == "@patch":
                if sh(["git", "-C", REPO, "apply", old]).returncode != 0:
                    print(f"SKIP {prop} {name}: {old} does not apply")
                    ok = False
                    continue
                r = sh(["/verif/check.sh", prop, "quick"])
                line = next((l for l in r.stdout.splitlines() if l.startswith(("violation class", "conformance mismatch"))), "")
                good = r.returncode == 1 and "VIOLATION property=" + prop in r.stdout
                ok &= good
                print(f"{'ok  ' if good else 'MISS'} {prop} {name}: exit {r.returncode}  {line[:150]}", flush=True)
                continue
            src = open(full, encoding="utf-8").read()
            if src.count(old) != 1:
                print(f"SKIP {prop} {name}: anchor text occurs {src.count(old)} times in {path} (tree differs from the pinned one)")
                ok = False
                continue
            open(full, "w", encoding="utf-8").write(src.replace(old, new))
            r = sh(["/verif/check.sh", prop, "quick"])
            line = next((l for l in r.stdout.splitlines() if l.startswith(("violation class", "conformance mismatch"))), "")
            good = r.returncode == 1 and "VIOLATION property=" + prop in r.stdout
            ok &= good
            print(f"{'ok  ' if good else 'MISS'} {prop} {name}: exit {r.returncode}  {line[:150]}")
            if r.returncode == 2:
                print("     " + r.stderr.strip().splitlines()[-1][:200] if r.stderr.strip() else "")
        finally:
            sh(["git", "-C", REPO, "checkout", "--", "."])
            sh(["git", "-C", REPO, "clean", "-fdq", "src"])
    for prop, name, path, old, new in CONTROLS:
        if which not in (prop, "all"):
            continue
        full = f"{REPO}/{path}"
        try:
            if path == "@patch":
                if sh(["git", "-C", REPO, "apply", old]).returncode != 0:
                    print(f"SKIP control {name}: {old} does not apply")
                    ok = False
                    continue
            else:
                src = open(full, encoding="utf-8").read()
                if src.count(old) != 1:
                    print(f"SKIP control {name}: anchor text occurs {src.count(old)} times")
                    ok = False
                    continue
                open(full, "w", encoding="utf-8").write(src.replace(old, new))
            r = sh(["/verif/check.sh", prop, "quick"])
            good = r.returncode == 0 and "VIOLATION" not in r.stdout
            ok &= good
            line = next((l for l in r.stdout.splitlines() if l.startswith("  ")), "")
            print(f"{'ok  ' if good else 'FALSE ALARM'} {prop} control (must pass): {name}: exit {r.returncode} {line[:160] if not good else ''}")
        finally:
            sh(["git", "-C", REPO, "checkout", "--", "."])
            sh(["git", "-C", REPO, "clean", "-fdq", "src"])
    sh(["rm", "-rf", "/verif/replays"])
    print("sensitivity:", "every mutant detected, every control silent" if ok else "NOT as expected")
    sys.exit(0 if ok else 1)


if __name__ == "__main__":
    main()
