#!/usr/bin/env python3
"""Applicability audit for deterministic simulation with fault injection (DST).

NOT a property check.  It re-derives, on the CURRENT /repo working tree, the
premises on which /verif/DESIGN.md answers "not applicable" (first for C01-C18, now for C01-C04 and C06-C15):
num-dual contains nothing a simulator could own (no threads, locks, atomics,
interior mutability, statics, clocks, I/O, randomness, async, Drop logic,
multiply-invoked callbacks, GIL release) and pulls in no dependency that does.

exit 0  every premise still holds
exit 3  a premise no longer holds (file:line printed) -> DESIGN.md section 7
        must be revisited for the properties anchored there
exit 2  the audit itself could not run / its self-test failed
It never exits 1 and never prints a line starting with "VIOLATION": nothing it
reports is a violation of a property.

usage: applicability_audit.py [--repo DIR] [--json FILE] [--self-test]
"""
import argparse
import json
import os
import re
import subprocess
import sys
import tempfile

# (label, properties whose N/A answer leans on it, regex, regex of tolerated code or None)
PREMISES = [
    ("threads / locks / channels / atomics", "all (C11 Send+Sync, C05, C12 in particular)",
     r"std::thread|std::sync|core::sync|\bMutex\b|\bRwLock\b|\bCondvar\b|\bAtomic[A-Z]\w*\b|\bmpsc\b|"
     r"\bBarrier\b|\brayon\b|\bcrossbeam\b|\bparking_lot\b|\bpar_iter\b|\bpar_bridge\b|\bspawn\s*\(", None),
    ("interior mutability / statics / lazies / thread-locals", "all (C01-C03, C06, C07: no cache, tape or hidden state)",
     r"\bUnsafeCell\b|\bRefCell\b|\bCell\s*<|\bOnceCell\b|\bOnceLock\b|\bLazyLock\b|\bLazyCell\b|lazy_static|"
     r"thread_local\s*!|\bstatic\s+mut\b|^\s*(pub(\([a-z ]+\))?\s+)?static\s+[A-Z_]", None),
    ("clocks / timers / sleeps", "all (C12: max_iter is a count, not a deadline)",
     r"std::time|\bInstant\b|\bSystemTime\b|\bDuration\b|\bsleep\s*\(", None),
    ("files / sockets / std::io / env / processes / console", "all (C16, C18 in particular)",
     r"std::io|std::fs|std::net|std::env|std::process|std::os|\bFile::|\bTcp[A-Z]|\bUdp[A-Z]|\bstdin\s*\(|"
     r"\bstdout\s*\(|\bstderr\s*\(|\bprintln\s*!|\beprintln\s*!|\bprint\s*!|\bdbg\s*!", None),
    ("randomness / randomised iteration order", "all",
     r"\brand::|\bHashMap\b|\bHashSet\b|\bRandomState\b|\bgetrandom\b|\bfastrand\b", None),
    ("async / futures / cancellation", "all",
     r"\basync\s+fn\b|\basync\s+move\b|\.await\b|\bFuture\b|\btokio\b|\bPoll\s*<", None),
    ("destructors with logic / unwinding recovery", "C13, C07 (no code runs after a failure)",
     r"impl[^{]*\bDrop\s+for\b|catch_unwind|resume_unwind|panic::set_hook|take_hook|\bManuallyDrop\b|mem::forget", None),
    ("fallible allocation / custom allocators", "C13, C07 (allocation failure aborts)",
     r"try_reserve|global_allocator|alloc::alloc|\bGlobalAlloc\b|alloc_error", None),
    ("callbacks other than call-once (Fn / FnMut bounds on drivers)", "C05, C12, C17",
     r"\b[A-Z]\w*:\s*(for<[^>]*>\s*)?Fn(Mut)?\s*\(", None),
    # hand-written Serialize/Deserialize impls are no longer a premise: C16 is claimed and simulated at the
    # Serializer/Deserializer seam (DESIGN.md section 13), whoever wrote the impls
    ("own data formats / stream framing", "all (C16: the crate implements no Serializer/Deserializer of its own)",
     r"impl[^{]*\b(Serializer|Deserializer)\b[^{]*\bfor\b|\bBufReader\b|\bBufWriter\b|"
     r"\bread_exact\b|\bwrite_all\b|\bimpl\s+(io::)?(Read|Write)\b", None),
    ("Python layer: GIL release / acquisition / mutable pyclass state", "C17",
     r"allow_threads|with_gil|Python::attach|\bdetach\s*\(|\bPyRefMut\b|\bunsendable\b|\bPyCell\b", None),
]

BAD_CRATES = re.compile(
    r"^(rand|rand_core|rand_chacha|getrandom|fastrand|rayon|rayon-core|crossbeam[a-z-]*|tokio|async-std|"
    r"futures[a-z-]*|parking_lot|mio|socket2|threadpool|num_cpus|tempfile|memmap2?|libloading)\s")
BAD_FEATURES = re.compile(
    r'(ndarray|nalgebra|matrixmultiply|simba|numpy|pyo3) feature "(rayon|threading|rand[a-z-]*|std-threads|parallel)"')


def strip_code(path):
    """Yield (lineno, code) for shipped code: // comments removed, the #[cfg(test)] mod tail dropped."""
    pending = False
    with open(path, encoding="utf-8", errors="replace") as fh:
        for no, line in enumerate(fh, 1):
            if re.match(r"\s*#\[cfg\(test\)\]", line):
                pending = True
                continue
            if pending and re.match(r"\s*(pub\s+)?mod\s+\w+\s*\{", line):
                return  # unit-test module to end of file (the crate's only such module is the last item of linalg.rs)
            pending = False
            code = re.sub(r"//.*", "", line.rstrip("\n"))
            yield no, code


def rs_files(src):
    out = []
    for root, _dirs, files in os.walk(src):
        for f in sorted(files):
            if f.endswith(".rs"):
                out.append(os.path.join(root, f))
    return sorted(out)


def scan(src, regex, allow=None):
    rx = re.compile(regex)
    ax = re.compile(allow) if allow else None
    hits = []
    for f in rs_files(src):
        for no, code in strip_code(f):
            if rx.search(code) and not (ax and ax.search(code)):
                hits.append((f, no, code.strip()))
    return hits


def cargo_tree(repo, edges, features, extra=()):
    cmd = ["cargo", "tree", "--offline", "-e", edges, "--prefix", "none", *extra]
    if features:
        cmd += ["--features", features]
    env = dict(os.environ, CARGO_NET_OFFLINE="true")
    r = subprocess.run(cmd, cwd=repo, env=env, capture_output=True, text=True)
    if r.returncode != 0:
        return None
    return sorted({re.sub(r" \(\*\)$", "", l) for l in r.stdout.splitlines() if l.strip()})


def audit(repo, with_deps=True, quiet=False):
    src = os.path.join(repo, "src")
    if not os.path.isdir(src):
        print(f"audit: {src} not found", file=sys.stderr)
        return 2, {}
    say = (lambda *a, **k: None) if quiet else print
    report = {"repo": repo, "premises": [], "counts": {}, "deps": []}
    broken = False
    head = subprocess.run(["git", "-C", repo, "rev-parse", "--short", "HEAD"], capture_output=True, text=True).stdout.strip()
    if not (os.path.isdir(os.path.join(repo, ".git")) or os.path.isfile(os.path.join(repo, ".git"))):
        head = ""
    is_git = os.path.isdir(os.path.join(repo, ".git")) or os.path.isfile(os.path.join(repo, ".git"))
    dirty = is_git and subprocess.run(["git", "-C", repo, "diff", "--quiet"], capture_output=True).returncode != 0
    report["head"], report["dirty"] = head, dirty
    say(f"applicability audit (DST) on {repo} @ {head or '?'}{' +local edits' if dirty else ''}")
    say(f"source premises ({len(rs_files(src))} files under src/, // comments and #[cfg(test)] modules stripped):")
    for label, props, regex, allow in PREMISES:
        hits = scan(src, regex, allow)
        report["premises"].append({"label": label, "leans": props, "hits": [f"{f}:{n}: {c}" for f, n, c in hits]})
        if hits:
            broken = True
            say(f"  BROKEN  {label:<64} {len(hits)} hits   [N/A answers leaning on it: {props}]")
            for f, n, c in hits[:20]:
                say(f"            {f}:{n}: {c}")
        else:
            say(f"  ok      {label:<64} 0 hits")
    # &mut self in the Python layer would make pyclass borrow flags a shared-state surface
    pyfiles = [f for f in rs_files(src) if "/python" in f]
    pymut = [(f, n, c.strip()) for f in pyfiles for n, c in strip_code(f) if "&mut self" in c]
    report["premises"].append({"label": "python &mut self", "leans": "C17", "hits": [f"{f}:{n}: {c}" for f, n, c in pymut]})
    if pymut:
        broken = True
        say(f"  BROKEN  {'Python layer: methods taking &mut self':<64} {len(pymut)} hits")
        for f, n, c in pymut[:20]:
            say(f"            {f}:{n}: {c}")
    else:
        say(f"  ok      {'Python layer: no method takes &mut self':<64} 0 hits in {len(pyfiles)} files")

    say("counted premises:")
    once = scan(src, r"\bG:\s*FnOnce\s*\(")
    report["counts"]["fnonce_drivers"] = len(once)
    say(f"  info    {'driver callbacks bounded by FnOnce (called exactly once)':<64} {len(once)}")
    if len(once) == 0:
        broken = True
        say("  BROKEN  no FnOnce-bounded driver found: the driver signatures changed, re-read them (C05)")
    unsafe_blocks = scan(src, r"\bunsafe\s*\{")
    outside = [h for h in unsafe_blocks if not h[0].endswith("/derivative.rs")]
    report["counts"]["unsafe_blocks"] = len(unsafe_blocks)
    say(f"  info    {'unsafe blocks (expected: only the two fill loops of derivative.rs)':<64} {len(unsafe_blocks)}")
    if outside:
        broken = True
        say(f"  BROKEN  unsafe block outside derivative.rs (new raw-memory surface, C13):")
        for f, n, c in outside:
            say(f"            {f}:{n}: {c}")

    if with_deps:
        say("dependency premises (cargo tree -e normal, offline):")
        for feat in ("", "linalg,serde", "python,linalg,serde"):
            tree = cargo_tree(repo, "normal", feat)
            if tree is None:
                print(f"audit: cargo tree failed for features [{feat}]", file=sys.stderr)
                return 2, report
            bad = [l for l in tree if BAD_CRATES.match(l)]
            report["deps"].append({"features": feat, "crates": len(tree), "bad": bad})
            if bad:
                broken = True
                say(f"  BROKEN  features [{feat}] pull in: {', '.join(bad)}")
            else:
                say(f"  ok      {'features [' + feat + ']':<64} {len(tree)} crates, none threaded/async/random/io")
        ftree = cargo_tree(repo, "normal,features", "python,linalg,serde")
        if ftree is None:
            print("audit: cargo tree -e features failed", file=sys.stderr)
            return 2, report
        badf = [l for l in ftree if BAD_FEATURES.search(l)]
        report["deps"].append({"bad_features": badf})
        if badf:
            broken = True
            say("  BROKEN  threaded/random dependency feature enabled: " + "; ".join(badf))
        else:
            say(f"  ok      {'no rayon/threading/rand feature on nalgebra, ndarray, matrixmultiply, simba, numpy, pyo3':<64}")

    report["all_premises_hold"] = not broken
    if broken:
        say("RESULT: a premise no longer holds -> revisit DESIGN.md section 7 for the properties named above")
        return 3, report
    say("RESULT: all premises hold -> no thread, clock, I/O or shared-state surface; DST stays not applicable to C01-C04 and C06-C15 (C05, C16, C17, C18 are simulated on the closure, serde, callback and sink seams; DESIGN.md sections 0-4, 10, 13, 15)")
    return 0, report


# One canary per premise: a line a realistic change would add.  The self-test plants each in a scratch
# copy of src/ and demands the audit flips to exit 3 for it, and stays 0 without it.
CANARIES = [
    ("src/dual_vec.rs", "use std::sync::Mutex;"),
    ("src/derivatives.rs", "static POW_CACHE: [f64; 4] = [0.0; 4];"),
    ("src/derivatives.rs", "thread_local! { static TAPE: () = (); }"),
    ("src/linalg.rs", "let t0 = std::time::Instant::now();"),
    ("src/dual.rs", "use std::io::Write;"),
    ("src/derivative.rs", "use std::collections::HashMap;"),
    ("src/python/dual.rs", "py.allow_threads(|| ());"),
    ("src/dual2_vec.rs", "pub fn hess2<G: Fn(u8) -> u8>(g: G) {}"),
    ("src/derivative.rs", "impl<T> Drop for Guard<T> { fn drop(&mut self) {} }"),
    ("src/dual.rs", "impl<'a> serde::Serializer for Compact<'a> {}"),
    ("src/hyperdual.rs", "fn f() { unsafe { core::hint::unreachable_unchecked() } }"),
    ("src/python_macro.rs", "fn set_re(&mut self, v: f64) {}"),
    ("src/linalg.rs", "a.axis_iter(Axis(0)).into_par_iter();\nuse rayon::prelude::*;"),
]


def self_test(repo):
    import shutil
    code0, _ = audit(repo, with_deps=False, quiet=True)
    if code0 != 0:
        print(f"self-test: audit of the working tree is not clean (exit {code0}); run without --self-test for detail")
        return 2
    tmp = tempfile.mkdtemp(prefix="dst_audit_selftest_")
    try:
        shutil.copytree(os.path.join(repo, "src"), os.path.join(tmp, "src"))
        ok = True
        for rel, line in CANARIES:
            p = os.path.join(tmp, rel)
            orig = open(p).read()
            # plant at the top of the file (shipped code), and once more commented out (must be ignored)
            open(p, "w").write(line + "\n// " + line.replace("\n", " ") + "\n" + orig)
            code, _ = audit(tmp, with_deps=False, quiet=True)
            open(p, "w").write("// " + line.replace("\n", " ") + "\n" + orig)
            code_commented, _ = audit(tmp, with_deps=False, quiet=True)
            open(p, "w").write(orig)
            good = (code == 3 and code_commented == 0)
            ok &= good
            print(f"  {'ok  ' if good else 'FAIL'} canary in {rel:<22} {line.splitlines()[0][:60]!r}: planted -> exit {code}, commented -> exit {code_commented}")
        print("self-test:", "every canary flips the audit, comments do not" if ok else "FAILED")
        return 0 if ok else 2
    finally:
        shutil.rmtree(tmp, ignore_errors=True)


def main():
    ap = argparse.ArgumentParser()
    ap.add_argument("--repo", default=os.environ.get("VERIF_REPO", "/repo"))
    ap.add_argument("--json", help="also write the findings to this file")
    ap.add_argument("--self-test", action="store_true", help="plant canaries in a scratch copy of src/ and check each is noticed")
    ap.add_argument("--no-deps", action="store_true", help="skip the cargo tree queries")
    a = ap.parse_args()
    if a.self_test:
        sys.exit(self_test(a.repo))
    code, report = audit(a.repo, with_deps=not a.no_deps)
    if a.json:
        with open(a.json, "w") as fh:
            json.dump(report, fh, indent=1)
    sys.exit(code)


if __name__ == "__main__":
    main()
