//! Reference model of a (nested) scalar dual number as C16 sees it: a tree whose leaves are the bits of
//! one float and whose inner nodes are named parts.  Also the shape in which the simulated serializer
//! records what it was handed, and from which the simulated deserializer presents it again.

use serde::{Deserialize, Serialize};
use std::fmt;

#[derive(Clone, Debug, PartialEq, Eq, Serialize, Deserialize)]
pub enum Node {
    F64(u64),
    F32(u32),
    Struct { name: String, fields: Vec<(String, Node)> },
    /// anything the documented stored form does not contain (a map, a sequence, a wrapper, an integer ...)
    Other(String),
}

impl Node {
    pub fn leaves(&self) -> usize {
        match self {
            Node::Struct { fields, .. } => fields.iter().map(|(_, n)| n.leaves()).sum(),
            _ => 1,
        }
    }
    pub fn structs(&self) -> usize {
        match self {
            Node::Struct { fields, .. } => 1 + fields.iter().map(|(_, n)| n.structs()).sum::<usize>(),
            _ => 0,
        }
    }
    /// short human form: {re:1,eps:{re:2,eps:3}}
    pub fn show(&self) -> String {
        match self {
            Node::F64(b) => format!("{:?}", f64::from_bits(*b)),
            Node::F32(b) => format!("{:?}f32", f32::from_bits(*b)),
            Node::Struct { fields, .. } => format!("{{{}}}", fields.iter().map(|(k, v)| format!("{k}:{}", v.show())).collect::<Vec<_>>().join(",")),
            Node::Other(s) => format!("<{s}>"),
        }
    }
}

/// J1: is `got` (what the serializer was handed) the documented stored form of `want` (built from the
/// constructor arguments)?  Field *order* is not part of C16; names, multiplicity, leaf kinds and bits are.
pub fn stored_form_mismatch(got: &Node, want: &Node, path: &str) -> Option<String> {
    match (got, want) {
        (Node::F64(a), Node::F64(b)) => (a != b).then(|| format!("{path}: stored {:?} (bits {a:#x}), the part is {:?} (bits {b:#x})", f64::from_bits(*a), f64::from_bits(*b))),
        (Node::F32(a), Node::F32(b)) => (a != b).then(|| format!("{path}: stored {:?}f32 (bits {a:#x}), the part is {:?}f32 (bits {b:#x})", f32::from_bits(*a), f32::from_bits(*b))),
        (Node::Struct { fields: gf, .. }, Node::Struct { fields: wf, .. }) => {
            for (k, _) in gf {
                if !wf.iter().any(|(wk, _)| wk == k) {
                    return Some(format!("{path}: a field named {k:?} is stored; the documented parts are {:?}", wf.iter().map(|(k, _)| k.as_str()).collect::<Vec<_>>()));
                }
                if gf.iter().filter(|(k2, _)| k2 == k).count() > 1 {
                    return Some(format!("{path}: field {k:?} is stored more than once"));
                }
            }
            for (wk, wv) in wf {
                match gf.iter().find(|(k, _)| k == wk) {
                    None => return Some(format!("{path}: part {wk:?} is not stored (stored fields: {:?})", gf.iter().map(|(k, _)| k.as_str()).collect::<Vec<_>>())),
                    Some((_, gv)) => {
                        if let Some(m) = stored_form_mismatch(gv, wv, &format!("{path}.{wk}")) {
                            return Some(m);
                        }
                    }
                }
            }
            None
        }
        (g, w) => Some(format!("{path}: stored as {}, expected {}", kind(g), kind(w))),
    }
}

fn kind(n: &Node) -> String {
    match n {
        Node::F64(_) => "an f64".into(),
        Node::F32(_) => "an f32".into(),
        Node::Struct { fields, .. } => format!("a struct of {} fields", fields.len()),
        Node::Other(s) => format!("{s}"),
    }
}

/// J2/J4: exact equality of two numbers, part by part (names in declaration order, leaves by bits).
pub fn value_mismatch(got: &Node, want: &Node, path: &str) -> Option<String> {
    match (got, want) {
        (Node::F64(a), Node::F64(b)) => (a != b).then(|| format!("{path}: restored {:?} (bits {a:#x}), stored was {:?} (bits {b:#x})", f64::from_bits(*a), f64::from_bits(*b))),
        (Node::F32(a), Node::F32(b)) => (a != b).then(|| format!("{path}: restored {:?}f32 (bits {a:#x}), stored was {:?}f32 (bits {b:#x})", f32::from_bits(*a), f32::from_bits(*b))),
        (Node::Struct { fields: gf, .. }, Node::Struct { fields: wf, .. }) if gf.len() == wf.len() => {
            for ((gk, gv), (wk, wv)) in gf.iter().zip(wf) {
                if gk != wk {
                    return Some(format!("{path}: harness error - public field {gk} vs {wk}"));
                }
                if let Some(m) = value_mismatch(gv, wv, &format!("{path}.{gk}")) {
                    return Some(m);
                }
            }
            None
        }
        (g, w) => Some(format!("{path}: restored {}, stored was {}", kind(g), kind(w))),
    }
}

#[derive(Debug, Clone)]
pub enum SimError {
    /// the fault the simulator injected at call / access number `.0`
    Injected(usize),
    /// an error raised by the code under test (serde's `custom`, `missing_field`, `invalid_type`, ...)
    Custom(String),
}

impl fmt::Display for SimError {
    fn fmt(&self, f: &mut fmt::Formatter) -> fmt::Result {
        match self {
            SimError::Injected(k) => write!(f, "injected fault at call {k}"),
            SimError::Custom(m) => write!(f, "{m}"),
        }
    }
}
impl std::error::Error for SimError {}
impl serde::ser::Error for SimError {
    fn custom<T: fmt::Display>(msg: T) -> Self {
        SimError::Custom(msg.to_string())
    }
}
impl serde::de::Error for SimError {
    fn custom<T: fmt::Display>(msg: T) -> Self {
        SimError::Custom(msg.to_string())
    }
}

/// A number that differs from `n` in every leaf (target of an in-place deserialization that must overwrite everything).
pub fn other_everywhere(n: &Node) -> Node {
    match n {
        Node::F64(b) => Node::F64(if f64::from_bits(*b) == 0.0 { 1.5f64.to_bits() } else { (-f64::from_bits(*b)).to_bits() }),
        Node::F32(b) => Node::F32(if f32::from_bits(*b) == 0.0 { 1.5f32.to_bits() } else { (-f32::from_bits(*b)).to_bits() }),
        Node::Struct { name, fields } => Node::Struct { name: name.clone(), fields: fields.iter().map(|(k, v)| (k.clone(), other_everywhere(v))).collect() },
        o => o.clone(),
    }
}

/// A number that an equality looking at real parts only (and `0.0 == -0.0`) cannot tell from `n`, although it differs:
/// every part keeps its innermost real value - zeros with the other sign - and gets other derivative parts.
pub fn equal_by_real_parts(n: &Node) -> Node {
    fn flip_zero(n: &Node) -> Node {
        match n {
            Node::F64(b) if f64::from_bits(*b) == 0.0 => Node::F64(*b ^ (1 << 63)),
            Node::F32(b) if f32::from_bits(*b) == 0.0 => Node::F32(*b ^ (1 << 31)),
            o => o.clone(),
        }
    }
    fn part(n: &Node) -> Node {
        match n {
            Node::Struct { name, fields } => Node::Struct {
                name: name.clone(),
                // the first field is the real part of this level: keep its real chain; everything else becomes something else
                fields: fields.iter().enumerate().map(|(i, (k, v))| (k.clone(), if i == 0 { part(v) } else { other_everywhere(v) })).collect(),
            },
            leaf => flip_zero(leaf),
        }
    }
    match n {
        Node::Struct { name, fields } => Node::Struct { name: name.clone(), fields: fields.iter().map(|(k, v)| (k.clone(), part(v))).collect() },
        o => o.clone(),
    }
}
