//! Seeded construction of (nested) scalar dual numbers of every serde-enabled type, together with the
//! reference tree C16 promises is stored: built from the values handed to the public constructors and the
//! documented part names - never from serde code of the crate.

use crate::de::{deserialize_tree, DeState, Presentation};
use crate::model::{Node, SimError};
use crate::rng::Rng;
use crate::ser::{SerState, SimSer};
use num_dual::*;
use serde::de::DeserializeOwned;
use serde::Serialize;
use std::cell::RefCell;
use std::io;

pub struct GenCtx {
    pub rng: Rng,
    /// small distinct integers only (minimised replays)
    pub simple: bool,
    counter: u32,
}

impl GenCtx {
    pub fn new(seed: u64, simple: bool) -> Self {
        GenCtx { rng: Rng::new(seed), simple, counter: 0 }
    }
    fn f64(&mut self) -> f64 {
        self.counter += 1;
        if self.simple {
            return self.counter as f64;
        }
        let r = &mut self.rng;
        let v = match r.below(12) {
            0 => r.below(2000) as f64 - 1000.0,
            1 => (r.below(2001) as f64 - 1000.0) / 8.0,
            2 => (r.below(200001) as f64 - 100000.0) / 1000.0,
            3 => [0.1, 0.2, 0.3, 1.0 / 3.0, 2.0 / 3.0, 1e-7, 123456.789, 1e21, 1e22, 1e23, 5e-324, 2.2250738585072014e-308, 1.7976931348623157e308, 9007199254740993.0, 0.30000000000000004, 4.35, 1e15, 1e16, 1e17, 1.0, 2.0][r.below(21)],
            4 => -0.0,
            5 => 0.0,
            6 => f64::from_bits((r.next() & 0x000F_FFFF_FFFF_FFFF) | ((1023 + r.below(3) as u64) << 52)),
            7 | 8 => loop {
                let v = f64::from_bits(r.next());
                if v.is_finite() {
                    break v;
                }
            },
            9 => f64::from_bits(r.next() & 0x000F_FFFF_FFFF_FFFF),
            10 => (r.below(19) as f64 - 9.0) * 10f64.powi(r.below(40) as i32 - 20),
            _ => (r.next() as i64 as f64) / 3.0,
        };
        if r.chance(300) {
            -v
        } else {
            v
        }
    }
    fn f32(&mut self) -> f32 {
        self.counter += 1;
        if self.simple {
            return self.counter as f32;
        }
        let r = &mut self.rng;
        let v = match r.below(9) {
            0 => r.below(2000) as f32 - 1000.0,
            1 => (r.below(200001) as f32 - 100000.0) / 1000.0,
            2 => [0.1f32, 0.2, 0.3, 1.0 / 3.0, 1e-7, 16777217.0, 3e-8, 3.4028235e38, 1e-45, 1.1754944e-38, 0.7, 1e10, 1.0, 2.0][r.below(14)],
            3 => -0.0,
            4 | 5 => loop {
                let v = f32::from_bits(r.next() as u32);
                if v.is_finite() {
                    break v;
                }
            },
            6 => f32::from_bits((r.next() as u32) & 0x007F_FFFF),
            7 => 0.0,
            _ => f32::from_bits(((r.next() as u32) & 0x007F_FFFF) | (127 << 23)),
        };
        if r.chance(300) {
            -v
        } else {
            v
        }
    }
}

/// A type the simulator can build from a seed and read back through its public fields.
pub trait Parts: Sized {
    fn gen(g: &mut GenCtx) -> (Self, Node);
    fn tree(&self) -> Node;
    /// build the number a reference tree describes, through the public constructors
    fn from_tree(n: &Node) -> Self;
}

impl Parts for f64 {
    fn gen(g: &mut GenCtx) -> (Self, Node) {
        let v = g.f64();
        (v, Node::F64(v.to_bits()))
    }
    fn tree(&self) -> Node {
        Node::F64(self.to_bits())
    }
    fn from_tree(n: &Node) -> Self {
        match n {
            Node::F64(b) => f64::from_bits(*b),
            _ => panic!("harness error: f64 leaf expected"),
        }
    }
}
impl Parts for f32 {
    fn gen(g: &mut GenCtx) -> (Self, Node) {
        let v = g.f32();
        (v, Node::F32(v.to_bits()))
    }
    fn tree(&self) -> Node {
        Node::F32(self.to_bits())
    }
    fn from_tree(n: &Node) -> Self {
        match n {
            Node::F32(b) => f32::from_bits(*b),
            _ => panic!("harness error: f32 leaf expected"),
        }
    }
}

/// part names as documented (property text, crate docs), in constructor order
macro_rules! parts_impl {
    ($ty:ident, $name:literal, [$($f:ident : $doc:literal),+]) => {
        impl<T: DualNum<F> + Parts, F> Parts for $ty<T, F> {
            fn gen(g: &mut GenCtx) -> (Self, Node) {
                $( let $f = T::gen(g); )+
                let node = Node::Struct { name: $name.to_string(), fields: vec![$(($doc.to_string(), $f.1)),+] };
                ($ty::new($($f.0),+), node)
            }
            fn tree(&self) -> Node {
                Node::Struct { name: $name.to_string(), fields: vec![$(($doc.to_string(), self.$f.tree())),+] }
            }
            fn from_tree(n: &Node) -> Self {
                let Node::Struct { fields, .. } = n else { panic!("harness error: struct expected") };
                let mut it = fields.iter();
                $( let $f = T::from_tree(&it.next().expect("field").1); )+
                $ty::new($($f),+)
            }
        }
    };
}
parts_impl!(Dual, "Dual", [re: "re", eps: "eps"]);
parts_impl!(Dual2, "Dual2", [re: "re", v1: "v1", v2: "v2"]);
parts_impl!(Dual3, "Dual3", [re: "re", v1: "v1", v2: "v2", v3: "v3"]);
parts_impl!(HyperDual, "HyperDual", [re: "re", eps1: "eps1", eps2: "eps2", eps1eps2: "eps1eps2"]);
parts_impl!(HyperHyperDual, "HyperHyperDual", [re: "re", eps1: "eps1", eps2: "eps2", eps3: "eps3", eps1eps2: "eps1eps2", eps1eps3: "eps1eps3", eps2eps3: "eps2eps3", eps1eps2eps3: "eps1eps2eps3"]);

#[derive(Clone, Copy, Debug, PartialEq, serde::Serialize, serde::Deserialize)]
pub enum JsonPath {
    /// to_string -> from_str
    Str,
    /// to_string_pretty -> from_str
    Pretty,
    /// to_vec -> from_slice
    Vec,
    /// to_value -> from_value (keys sorted)
    Value,
    /// to_writer(Vec) -> from_reader
    Reader,
}

/// an io::Write that fails its k-th write call (None: never), optionally accepting one byte at a time
pub struct FaultyWriter {
    pub bytes: Vec<u8>,
    pub calls: usize,
    pub fail_at: Option<usize>,
    pub one_byte: bool,
    pub fired: bool,
}
impl io::Write for FaultyWriter {
    fn write(&mut self, buf: &[u8]) -> io::Result<usize> {
        let id = self.calls;
        self.calls += 1;
        if self.fail_at == Some(id) {
            self.fired = true;
            return Err(io::Error::new(io::ErrorKind::Other, "injected write error"));
        }
        let n = if self.one_byte { buf.len().min(1) } else { buf.len() };
        self.bytes.extend_from_slice(&buf[..n]);
        Ok(n)
    }
    fn flush(&mut self) -> io::Result<()> {
        Ok(())
    }
}

pub trait SubjectDyn {
    fn expect(&self) -> &Node;
    /// real `Serialize::serialize` into the simulated serializer
    fn ser(&self, st: &RefCell<SerState>, hr: bool) -> Result<Node, SimError>;
    /// real `Deserialize::deserialize` from the simulated deserializer; the result read through public fields
    fn de(&self, rec: &Node, st: &RefCell<DeState>, p: &Presentation) -> Result<Node, SimError>;
    /// real `Deserialize::deserialize_in_place` into an existing number built from the tree `target`
    fn de_in_place(&self, rec: &Node, st: &RefCell<DeState>, p: &Presentation, target: &Node) -> Result<Node, SimError>;
    fn json_text(&self, pretty: bool) -> Result<String, String>;
    fn json_roundtrip(&self, path: JsonPath) -> Result<Node, String>;
    fn json_from_text(&self, text: &str) -> Result<Node, String>;
    fn json_from_reader(&self, bytes: &[u8]) -> Result<Node, String>;
    fn json_to_writer(&self, w: &mut FaultyWriter) -> Result<(), String>;
}

pub struct Subj<T> {
    v: T,
    expect: Node,
}

impl<T: Parts + Serialize + DeserializeOwned> SubjectDyn for Subj<T> {
    fn expect(&self) -> &Node {
        &self.expect
    }
    fn ser(&self, st: &RefCell<SerState>, hr: bool) -> Result<Node, SimError> {
        self.v.serialize(SimSer { st, hr })
    }
    fn de(&self, rec: &Node, st: &RefCell<DeState>, p: &Presentation) -> Result<Node, SimError> {
        deserialize_tree::<T>(rec, st, p).map(|v| v.tree())
    }
    fn de_in_place(&self, rec: &Node, st: &RefCell<DeState>, p: &Presentation, target: &Node) -> Result<Node, SimError> {
        let mut place = T::from_tree(target);
        serde::Deserialize::deserialize_in_place(crate::de::SimDe { node: rec, st, p, path: 1 }, &mut place)?;
        Ok(place.tree())
    }
    fn json_text(&self, pretty: bool) -> Result<String, String> {
        if pretty { serde_json::to_string_pretty(&self.v) } else { serde_json::to_string(&self.v) }.map_err(|e| e.to_string())
    }
    fn json_roundtrip(&self, path: JsonPath) -> Result<Node, String> {
        let e = |e: serde_json::Error| e.to_string();
        let back: T = match path {
            JsonPath::Str => serde_json::from_str(&serde_json::to_string(&self.v).map_err(e)?).map_err(e)?,
            JsonPath::Pretty => serde_json::from_str(&serde_json::to_string_pretty(&self.v).map_err(e)?).map_err(e)?,
            JsonPath::Vec => serde_json::from_slice(&serde_json::to_vec(&self.v).map_err(e)?).map_err(e)?,
            JsonPath::Value => serde_json::from_value(serde_json::to_value(&self.v).map_err(e)?).map_err(e)?,
            JsonPath::Reader => {
                let mut buf = Vec::new();
                serde_json::to_writer(&mut buf, &self.v).map_err(e)?;
                serde_json::from_reader(&buf[..]).map_err(e)?
            }
        };
        Ok(back.tree())
    }
    fn json_from_text(&self, text: &str) -> Result<Node, String> {
        serde_json::from_str::<T>(text).map(|v| v.tree()).map_err(|e| e.to_string())
    }
    fn json_from_reader(&self, bytes: &[u8]) -> Result<Node, String> {
        serde_json::from_reader::<_, T>(bytes).map(|v| v.tree()).map_err(|e| e.to_string())
    }
    fn json_to_writer(&self, w: &mut FaultyWriter) -> Result<(), String> {
        serde_json::to_writer(w, &self.v).map_err(|e| e.to_string())
    }
}

pub type Maker = fn(&mut GenCtx) -> Box<dyn SubjectDyn>;

fn mk<T: Parts + Serialize + DeserializeOwned + 'static>(g: &mut GenCtx) -> Box<dyn SubjectDyn> {
    let (v, expect) = T::gen(g);
    Box::new(Subj { v, expect })
}

/// simplest first (the minimiser walks towards the front)
pub const TYPES: &[(&str, Maker)] = &[
    ("Dual64", mk::<Dual64>),
    ("Dual2_64", mk::<Dual2_64>),
    ("Dual3_64", mk::<Dual3_64>),
    ("HyperDual64", mk::<HyperDual64>),
    ("HyperHyperDual64", mk::<HyperHyperDual64>),
    ("Dual32", mk::<Dual32>),
    ("Dual2_32", mk::<Dual2_32>),
    ("Dual3_32", mk::<Dual3_32>),
    ("HyperDual32", mk::<HyperDual32>),
    ("HyperHyperDual32", mk::<HyperHyperDual32>),
    ("Dual<Dual64>", mk::<Dual<Dual64, f64>>),
    ("Dual<Dual32>", mk::<Dual<Dual32, f32>>),
    ("Dual2<Dual64>", mk::<Dual2<Dual64, f64>>),
    ("Dual3<Dual64>", mk::<Dual3<Dual64, f64>>),
    ("HyperDual<Dual64>", mk::<HyperDual<Dual64, f64>>),
    ("HyperHyperDual<Dual64>", mk::<HyperHyperDual<Dual64, f64>>),
    ("Dual<Dual2_64>", mk::<Dual<Dual2_64, f64>>),
    ("Dual<Dual3_64>", mk::<Dual<Dual3_64, f64>>),
    ("Dual<HyperDual64>", mk::<Dual<HyperDual64, f64>>),
    ("Dual<HyperHyperDual64>", mk::<Dual<HyperHyperDual64, f64>>),
    ("Dual2<Dual2_64>", mk::<Dual2<Dual2_64, f64>>),
    ("Dual2<HyperDual32>", mk::<Dual2<HyperDual32, f32>>),
    ("Dual3<Dual3_32>", mk::<Dual3<Dual3_32, f32>>),
    ("HyperDual<HyperDual64>", mk::<HyperDual<HyperDual64, f64>>),
    ("HyperDual<Dual2_32>", mk::<HyperDual<Dual2_32, f32>>),
    ("HyperHyperDual<Dual32>", mk::<HyperHyperDual<Dual32, f32>>),
    ("Dual<Dual<Dual64>>", mk::<Dual<Dual<Dual64, f64>, f64>>),
    ("Dual3<Dual<Dual64>>", mk::<Dual3<Dual<Dual64, f64>, f64>>),
    ("HyperDual<Dual2<Dual64>>", mk::<HyperDual<Dual2<Dual64, f64>, f64>>),
    ("Dual2<HyperDual<Dual32>>", mk::<Dual2<HyperDual<Dual32, f32>, f32>>),
    ("Dual<Dual<Dual<Dual64>>>", mk::<Dual<Dual<Dual<Dual64, f64>, f64>, f64>>),
];
