//! Deterministic simulation of num-dual's serde impls against simulator-owned `Serializer` / `Deserializer` (C16).
//!
//! Real code under test: the expansions of `#[derive(Serialize, Deserialize)]` on Dual, Dual2, Dual3, HyperDual,
//! HyperHyperDual inside num-dual (with the skipped marker and the recursion through nested parts), serde's
//! primitive impls and MapAccess/SeqAccess plumbing; serde_json in the end-to-end tier.
//! Simulated: the data format on both sides (ser.rs, de.rs).  One u64 decides every type, value, presentation
//! and fault plan.  Invariants J1-J6: DESIGN.md section 13.

mod de;
mod gen;
mod model;
mod rng;
mod ser;

use de::{DePlan, DeState, KeyForm, Noise, Order, Presentation, Shape};
use gen::{FaultyWriter, GenCtx, JsonPath, SubjectDyn, TYPES};
use model::{equal_by_real_parts, other_everywhere, stored_form_mismatch, value_mismatch, Node};
use rng::{mix, Rng};
use ser::{SerPlan, SerState};
use serde::{Deserialize, Serialize};
use std::collections::{BTreeMap, HashSet};
use std::io::Write as _;
use std::panic::{catch_unwind, AssertUnwindSafe};
use std::time::Instant;

#[derive(Clone, Debug, Serialize, Deserialize, PartialEq)]
pub enum Op {
    /// serialize into the simulated serializer (which answers `.1` to is_human_readable) under a fault plan
    Ser(SerPlan, bool),
    /// serialize fault-free, then deserialize the recorded output under a presentation and a fault plan
    De(Presentation, DePlan),
    /// the same through Deserialize::deserialize_in_place (what serde's Vec / Option / tuple impls call when a
    /// container is refreshed in place) into an existing number: one that differs everywhere (false), or one that an
    /// equality looking at real parts only cannot tell from the stored number (true)
    DeInPlace(Presentation, DePlan, bool),
    /// serde_json end to end
    Json(JsonPath),
    /// serde_json::to_writer into a writer that fails its k-th write call
    JsonWriter { fail_at: Option<usize>, one_byte: bool },
    /// serde_json::from_str / from_reader on the first `keep` bytes of the output
    JsonTruncated { keep: usize, reader: bool },
}

#[derive(Clone, Debug, Serialize, Deserialize, PartialEq)]
pub struct Case {
    pub type_name: String,
    pub value_seed: u64,
    pub simple: bool,
    pub op: Op,
}

#[derive(Clone, Debug, Serialize, Deserialize, PartialEq, Eq, PartialOrd, Ord)]
pub enum Class {
    /// J1
    StoredForm,
    /// J2
    RoundTrip,
    /// J3
    SerErrorSwallowed,
    /// J4
    DeErrorSwallowed,
    /// J4: Ok(value) with parts that were never delivered
    WrongData,
    /// J5
    SpuriousError,
    Panic,
    /// J6
    JsonRoundTrip,
    JsonLayout,
    JsonErrorSwallowed,
}

#[derive(Clone, Debug, Serialize)]
pub struct Outcome {
    pub stored: String,
    pub expect: String,
    pub returned_ok: bool,
    pub result: String,
    pub history: Vec<String>,
    pub violation: Option<(Class, String)>,
    pub faults_fired: BTreeMap<String, u64>,
    pub skipped_inexact: bool,
}

fn build(case: &Case) -> Option<Box<dyn SubjectDyn>> {
    let maker = TYPES.iter().find(|(n, _)| *n == case.type_name)?;
    let mut g = GenCtx::new(case.value_seed, case.simple);
    Some((maker.1)(&mut g))
}

fn panic_msg(p: Box<dyn std::any::Any + Send>) -> String {
    if let Some(s) = p.downcast_ref::<&str>() {
        s.to_string()
    } else if let Some(s) = p.downcast_ref::<String>() {
        s.clone()
    } else {
        "non-string panic".to_string()
    }
}

/// does this path of serde_json represent every leaf of the number exactly? (C16: "for all values the data
/// format represents exactly") - decided with plain floats, never with num-dual types
fn json_exact(n: &Node, path: JsonPath) -> bool {
    match n {
        Node::F64(b) => {
            let v = f64::from_bits(*b);
            let back: Option<f64> = match path {
                JsonPath::Value => serde_json::to_value(v).ok().and_then(|x| serde_json::from_value(x).ok()),
                _ => serde_json::to_string(&v).ok().and_then(|s| serde_json::from_str(&s).ok()),
            };
            back.map(|x| x.to_bits()) == Some(*b)
        }
        Node::F32(b) => {
            let v = f32::from_bits(*b);
            let back: Option<f32> = match path {
                JsonPath::Value => serde_json::to_value(v).ok().and_then(|x| serde_json::from_value(x).ok()),
                _ => serde_json::to_string(&v).ok().and_then(|s| serde_json::from_str(&s).ok()),
            };
            back.map(|x| x.to_bits()) == Some(*b)
        }
        Node::Struct { fields, .. } => fields.iter().all(|(_, c)| json_exact(c, path)),
        Node::Other(_) => false,
    }
}

/// the JSON text, parsed generically, has exactly the documented keys at every level and numbers at the leaves
fn json_layout_mismatch(v: &serde_json::Value, want: &Node, path: &str) -> Option<String> {
    match want {
        Node::Struct { fields, .. } => {
            let Some(obj) = v.as_object() else { return Some(format!("{path}: JSON holds {v}, expected an object")) };
            for k in obj.keys() {
                if !fields.iter().any(|(wk, _)| wk == k) {
                    return Some(format!("{path}: JSON has a key {k:?}; the documented parts are {:?}", fields.iter().map(|(k, _)| k.as_str()).collect::<Vec<_>>()));
                }
            }
            for (wk, wv) in fields {
                match obj.get(wk) {
                    None => return Some(format!("{path}: JSON has no key {wk:?} (keys: {:?})", obj.keys().collect::<Vec<_>>())),
                    Some(c) => {
                        if let Some(m) = json_layout_mismatch(c, wv, &format!("{path}.{wk}")) {
                            return Some(m);
                        }
                    }
                }
            }
            None
        }
        _ => (!v.is_number()).then(|| format!("{path}: JSON holds {v}, expected a number")),
    }
}

thread_local! {
    /// when set, every case executed on this thread (probes included) is logged, in order
    static TRACE: std::cell::RefCell<Option<Vec<Case>>> = const { std::cell::RefCell::new(None) };
}

/// Execute one case against the real code.  A pure function of `case` - unless the code under test keeps state
/// between calls, which is what the history path in main() is for.
pub fn run_case(case: &Case) -> Outcome {
    TRACE.with(|t| {
        if let Some(v) = t.borrow_mut().as_mut() {
            v.push(case.clone());
        }
    });
    let mut out = Outcome { stored: String::new(), expect: String::new(), returned_ok: false, result: String::new(), history: vec![], violation: None, faults_fired: BTreeMap::new(), skipped_inexact: false };
    let subject = match catch_unwind(AssertUnwindSafe(|| build(case))) {
        Ok(Some(s)) => s,
        Ok(None) => panic!("harness error: unknown type {}", case.type_name),
        Err(p) => {
            out.violation = Some((Class::Panic, format!("constructing the value panicked: {}", panic_msg(p))));
            return out;
        }
    };
    let expect = subject.expect().clone();
    out.expect = expect.show();
    // fault-free serialization, as the property observes it (J1, J5)
    let hr = match &case.op {
        Op::Ser(_, hr) => *hr,
        Op::De(p, _) | Op::DeInPlace(p, _, _) => p.human_readable,
        _ => true,
    };
    let st0 = SerState::new(SerPlan::None);
    let rec = match catch_unwind(AssertUnwindSafe(|| subject.ser(&st0, hr))) {
        Err(p) => {
            out.violation = Some((Class::Panic, format!("serialize panicked: {}", panic_msg(p))));
            return out;
        }
        Ok(Err(e)) => {
            out.violation = Some((Class::SpuriousError, format!("serialize failed although the serializer accepted every call: {e}")));
            return out;
        }
        Ok(Ok(n)) => n,
    };
    out.stored = rec.show();
    if let Some(m) = stored_form_mismatch(&rec, &expect, "$") {
        out.history = st0.borrow().history.iter().map(|e| format!("{}:{}", e.kind, e.detail)).collect();
        out.violation = Some((Class::StoredForm, if hr { m } else { format!("{m} (serializer answering is_human_readable() = false)") }));
        return out;
    }
    match &case.op {
        Op::Ser(plan, _) => {
            let st = SerState::new(plan.clone());
            let res = catch_unwind(AssertUnwindSafe(|| subject.ser(&st, hr)));
            let s = st.borrow();
            let rejected = s.rejected();
            out.history = s.history.iter().map(|e| format!("{}{}:{}", if e.ok { "" } else { "!" }, e.kind, e.detail)).collect();
            if !rejected.is_empty() {
                *out.faults_fired.entry(format!("ser_reject/{}", ser_plan_kind(plan))).or_default() += rejected.len() as u64;
                for k in &rejected {
                    *out.faults_fired.entry(format!("ser_reject_at/{}", s.history[*k].kind)).or_default() += 1;
                }
            }
            match res {
                Err(p) => out.violation = Some((Class::Panic, format!("serialize panicked: {}", panic_msg(p)))),
                Ok(r) => {
                    out.returned_ok = r.is_ok();
                    match r {
                        Ok(n) => {
                            out.result = n.show();
                            if !rejected.is_empty() {
                                out.violation = Some((Class::SerErrorSwallowed, format!(
                                    "serialize reported success although the serializer rejected call(s) {rejected:?} ({}); what it accepted is {}, the number is {}",
                                    rejected.iter().map(|k| format!("{}:{}", s.history[*k].kind, s.history[*k].detail)).collect::<Vec<_>>().join(", "), n.show(), expect.show())));
                            } else if n != rec {
                                out.violation = Some((Class::StoredForm, format!("two fault-free serializations of the same value differ: {} vs {}", n.show(), rec.show())));
                            }
                        }
                        Err(e) => {
                            out.result = e.to_string();
                            if rejected.is_empty() {
                                out.violation = Some((Class::SpuriousError, format!("serialize failed although the serializer accepted every call: {e}")));
                            }
                        }
                    }
                }
            }
        }
        Op::De(p, plan) | Op::DeInPlace(p, plan, _) => {
            let st = DeState::new(plan.clone());
            let res = match &case.op {
                Op::DeInPlace(_, _, near) => {
                    let target = if *near { equal_by_real_parts(&expect) } else { other_everywhere(&expect) };
                    catch_unwind(AssertUnwindSafe(|| subject.de_in_place(&rec, &st, p, &target)))
                }
                _ => catch_unwind(AssertUnwindSafe(|| subject.de(&rec, &st, p))),
            };
            let s = st.borrow();
            let failed = s.failed();
            out.history = s.history.iter().map(|e| format!("{}{}:{}", if e.ok { "" } else { "!" }, e.kind, e.detail)).collect();
            for (_, kind) in &failed {
                *out.faults_fired.entry(format!("de_error_at/{kind}")).or_default() += 1;
            }
            if !failed.is_empty() {
                *out.faults_fired.entry(format!("de_error/{}", de_plan_kind(plan))).or_default() += failed.len() as u64;
            }
            match res {
                Err(pn) => out.violation = Some((Class::Panic, format!("deserialize panicked: {}", panic_msg(pn)))),
                Ok(r) => {
                    out.returned_ok = r.is_ok();
                    match r {
                        Ok(t) => {
                            out.result = t.show();
                            let mm = value_mismatch(&t, &expect, "$");
                            if failed.is_empty() {
                                if let Some(m) = mm {
                                    out.violation = Some((Class::RoundTrip, format!("deserializing the output presented as {p:?} does not restore the number: {m}")));
                                } else if let Some((asked, written)) = s.name_mismatch.first() {
                                    out.violation = Some((Class::RoundTrip, format!("the number is written with serialize_struct({written:?}, ..) and read with deserialize_struct({asked:?}, ..): a format that stores the struct's name (RON, XML element tags) cannot read its own output")));
                                } else if let Some(name) = s.undrained.first() {
                                    out.violation = Some((Class::RoundTrip, format!("the visitor of {name} returned without asking the map for its end: a streaming format that consumes its end marker in that last next_key (CBOR indefinite-length maps) leaves the marker unread and the enclosing value misreads it (presentation {p:?})")));
                                }
                            } else if let Some(m) = mm {
                                out.violation = Some((Class::WrongData, format!(
                                    "the deserializer failed access(es) {failed:?} and deserialize still returned a number - with parts that were never delivered: {m}")));
                            } else if failed.iter().any(|(_, k)| k == "struct" || k == "value" || k == "element") {
                                out.violation = Some((Class::DeErrorSwallowed, format!("the deserializer failed access(es) {failed:?} and deserialize reported success")));
                            }
                        }
                        Err(e) => {
                            out.result = e.to_string();
                            if failed.is_empty() && !p.keys.optional() && p.noise == Noise::None && !p.integers {
                                out.violation = Some((Class::RoundTrip, format!("deserializing the output presented as {p:?} fails: {e} (output: {})", rec.show())));
                            }
                            // keys as bytes / positions: an impl may refuse them; what it must not do is accept them and restore something else
                        }
                    }
                }
            }
        }
        Op::Json(path) => {
            if !json_exact(&expect, *path) {
                out.skipped_inexact = true;
                return out;
            }
            let res = catch_unwind(AssertUnwindSafe(|| subject.json_roundtrip(*path)));
            match res {
                Err(p) => out.violation = Some((Class::Panic, format!("serde_json {path:?} round trip panicked: {}", panic_msg(p)))),
                Ok(Err(e)) => out.violation = Some((Class::JsonRoundTrip, format!("serde_json {path:?} round trip fails: {e}"))),
                Ok(Ok(t)) => {
                    out.returned_ok = true;
                    out.result = t.show();
                    if let Some(m) = value_mismatch(&t, &expect, "$") {
                        out.violation = Some((Class::JsonRoundTrip, format!("serde_json {path:?} round trip does not restore the number: {m}")));
                    }
                }
            }
            if out.violation.is_none() && matches!(path, JsonPath::Str | JsonPath::Pretty) {
                match subject.json_text(matches!(path, JsonPath::Pretty)) {
                    Err(e) => out.violation = Some((Class::JsonRoundTrip, format!("to_string fails: {e}"))),
                    Ok(text) => {
                        out.history = vec![text.clone()];
                        match serde_json::from_str::<serde_json::Value>(&text) {
                            Err(e) => out.violation = Some((Class::JsonLayout, format!("the output is not JSON: {e}: {text}"))),
                            Ok(v) => {
                                if let Some(m) = json_layout_mismatch(&v, &expect, "$") {
                                    out.violation = Some((Class::JsonLayout, format!("{m} in {text}")));
                                }
                            }
                        }
                    }
                }
            }
        }
        Op::JsonWriter { fail_at, one_byte } => {
            let mut w = FaultyWriter { bytes: vec![], calls: 0, fail_at: *fail_at, one_byte: *one_byte, fired: false };
            let res = catch_unwind(AssertUnwindSafe(|| subject.json_to_writer(&mut w)));
            out.history = vec![format!("write calls: {}", w.calls), String::from_utf8_lossy(&w.bytes).to_string()];
            if w.fired {
                *out.faults_fired.entry("json_write_error".into()).or_default() += 1;
            }
            if *one_byte {
                *out.faults_fired.entry("json_short_writes".into()).or_default() += w.calls as u64;
            }
            match res {
                Err(p) => out.violation = Some((Class::Panic, format!("to_writer panicked: {}", panic_msg(p)))),
                Ok(r) => {
                    out.returned_ok = r.is_ok();
                    if w.fired && r.is_ok() {
                        out.violation = Some((Class::JsonErrorSwallowed, format!("to_writer reported success although write call {fail_at:?} failed; the stream holds {:?}", String::from_utf8_lossy(&w.bytes))));
                    } else if !w.fired {
                        match (r, subject.json_text(false)) {
                            (Err(e), _) => out.violation = Some((Class::SpuriousError, format!("to_writer failed although every write was accepted: {e}"))),
                            (Ok(()), Ok(t)) if t.as_bytes() != &w.bytes[..] => out.violation = Some((Class::JsonRoundTrip, format!("to_writer wrote {:?}, to_string gives {t:?}", String::from_utf8_lossy(&w.bytes)))),
                            _ => {}
                        }
                    }
                }
            }
        }
        Op::JsonTruncated { keep, reader } => {
            let Ok(text) = subject.json_text(false) else {
                out.violation = Some((Class::JsonRoundTrip, "to_string fails".into()));
                return out;
            };
            if *keep >= text.len() || !text.is_ascii() {
                return out;
            }
            let prefix = &text[..*keep];
            out.history = vec![prefix.to_string()];
            *out.faults_fired.entry(format!("json_truncated/{}", if *reader { "reader" } else { "str" })).or_default() += 1;
            let res = catch_unwind(AssertUnwindSafe(|| if *reader { subject.json_from_reader(prefix.as_bytes()) } else { subject.json_from_text(prefix) }));
            match res {
                Err(p) => out.violation = Some((Class::Panic, format!("from_str on truncated output panicked: {}", panic_msg(p)))),
                Ok(Err(e)) => out.result = e,
                Ok(Ok(t)) => {
                    out.returned_ok = true;
                    out.result = t.show();
                    if let Some(m) = value_mismatch(&t, &expect, "$") {
                        out.violation = Some((Class::WrongData, format!("the output truncated to {keep} of {} bytes ({prefix:?}) deserializes to a number - with parts that were never read: {m}", text.len())));
                    }
                }
            }
        }
    }
    out
}

fn ser_plan_kind(p: &SerPlan) -> &'static str {
    match p {
        SerPlan::None => "none",
        SerPlan::FailOnce(_) => "once",
        SerPlan::FailFrom(_) => "from",
        SerPlan::FailSet(_) => "set",
        SerPlan::Random { .. } => "random",
    }
}
fn de_plan_kind(p: &DePlan) -> &'static str {
    match p {
        DePlan::None => "none",
        DePlan::FailOnce(_) => "once",
        DePlan::FailFrom(_) => "from",
        DePlan::FailSet(_) => "set",
        DePlan::Random { .. } => "random",
    }
}

fn presentations(r: &mut Rng, is_f32: bool, all: bool) -> Vec<Presentation> {
    let mut v = vec![];
    let widen: &[bool] = if is_f32 { &[false, true] } else { &[false] };
    // human-readable, self-describing formats (JSON, YAML, TOML ...): one number type, so f32 parts may arrive as f64
    for &f32_as_f64 in widen {
        v.push(Presentation { shape: Shape::Seq, order: Order::Written, keys: KeyForm::Str, f32_as_f64, human_readable: true, noise: Noise::None, no_size_hint: false, narrow_floats: false, integers: false });
        for order in [Order::Written, Order::Reversed, Order::Sorted, Order::Permuted(r.next()), Order::Permuted(r.next())] {
            for keys in [KeyForm::Str, KeyForm::Owned, KeyForm::Borrowed] {
                v.push(Presentation { shape: Shape::Map, order, keys, f32_as_f64, human_readable: true, noise: Noise::None, no_size_hint: false, narrow_floats: false, integers: false });
            }
        }
    }
    // keys as bytes / as field positions (what serde's derive accepts besides strings; packed binary formats)
    for keys in [KeyForm::Bytes, KeyForm::Index] {
        for (order, hr) in [(Order::Written, true), (Order::Reversed, true), (Order::Written, false), (Order::Permuted(r.next()), false)] {
            v.push(Presentation { shape: Shape::Map, order, keys, f32_as_f64: false, human_readable: hr, noise: Noise::None, no_size_hint: false, narrow_floats: false, integers: false });
        }
    }
    // maps that also hold unknown entries, or one entry twice (an impl may refuse them: Err tolerated, Ok must be right)
    for (order, keys) in [(Order::Written, KeyForm::Str), (Order::Permuted(r.next()), KeyForm::Owned), (Order::Sorted, KeyForm::Borrowed)] {
        v.push(Presentation { shape: Shape::Map, order, keys, f32_as_f64: false, human_readable: true, noise: Noise::Unknown(r.next()), no_size_hint: false, narrow_floats: false, integers: false });
        v.push(Presentation { shape: Shape::Map, order, keys, f32_as_f64: false, human_readable: true, noise: Noise::Duplicate(r.next()), no_size_hint: false, narrow_floats: false, integers: false });
    }
    // hint-driven presentation (serde's flatten buffer, property-lookup formats)
    for keys in [KeyForm::Str, KeyForm::Owned, KeyForm::Borrowed] {
        v.push(Presentation { shape: Shape::MapByHint, order: Order::Written, keys, f32_as_f64: false, human_readable: true, noise: Noise::None, no_size_hint: false, narrow_floats: false, integers: false });
    }
    // streaming formats: no size hints
    v.push(Presentation { shape: Shape::Seq, order: Order::Written, keys: KeyForm::Str, f32_as_f64: false, human_readable: true, noise: Noise::None, no_size_hint: true, narrow_floats: false, integers: false });
    v.push(Presentation { shape: Shape::Map, order: Order::Written, keys: KeyForm::Str, f32_as_f64: false, human_readable: true, noise: Noise::None, no_size_hint: true, narrow_floats: false, integers: false });
    v.push(Presentation { shape: Shape::Seq, order: Order::Written, keys: KeyForm::Str, f32_as_f64: false, human_readable: false, noise: Noise::None, no_size_hint: true, narrow_floats: false, integers: false });
    // narrowest-exact-width floats (binary formats), and integral parts arriving as integers (tolerant)
    for hr in [true, false] {
        v.push(Presentation { shape: Shape::Map, order: Order::Written, keys: KeyForm::Str, f32_as_f64: false, human_readable: hr, noise: Noise::None, no_size_hint: false, narrow_floats: true, integers: false });
        v.push(Presentation { shape: Shape::Seq, order: Order::Written, keys: KeyForm::Str, f32_as_f64: false, human_readable: hr, noise: Noise::None, no_size_hint: false, narrow_floats: true, integers: false });
        v.push(Presentation { shape: Shape::Map, order: Order::Sorted, keys: KeyForm::Owned, f32_as_f64: false, human_readable: hr, noise: Noise::None, no_size_hint: false, narrow_floats: false, integers: true });
    }
    // binary formats (is_human_readable() = false): positional (bincode, postcard) or with named fields (CBOR, MessagePack)
    v.push(Presentation { shape: Shape::Seq, order: Order::Written, keys: KeyForm::Str, f32_as_f64: false, human_readable: false, noise: Noise::None, no_size_hint: false, narrow_floats: false, integers: false });
    for order in [Order::Written, Order::Permuted(r.next())] {
        for keys in [KeyForm::Str, KeyForm::Owned, KeyForm::Borrowed] {
            v.push(Presentation { shape: Shape::Map, order, keys, f32_as_f64: false, human_readable: false, noise: Noise::None, no_size_hint: false, narrow_floats: false, integers: false });
        }
    }
    if all {
        return v;
    }
    // quick tier: both sequence forms, the written order, and two seeded picks of the rest
    let bin_seq = v.iter().position(|p| !p.human_readable && p.shape == Shape::Seq).unwrap();
    let by_hint = v.iter().position(|p| p.shape == Shape::MapByHint).unwrap();
    let opt = v.iter().position(|p| p.keys.optional()).unwrap();
    let noisy = v.iter().position(|p| p.noise != Noise::None).unwrap();
    let narrow = v.iter().position(|p| p.narrow_floats).unwrap();
    let mut pick = vec![v[0], v[1 + r.below(3)], v[bin_seq], v[by_hint + r.below(3)], v[opt + r.below(8)], v[noisy + r.below(6)], v[narrow + r.below(2)]];
    for _ in 0..2 {
        pick.push(v[r.below(v.len())]);
    }
    pick
}

/// All cases explored for the value with index `i` of a batch.  Deterministic in (seed, i).
fn cases_for_value(seed: u64, i: u64, thorough: bool) -> Vec<Case> {
    let mut r = Rng::new(mix(seed, i));
    let (name, _) = TYPES[r.below(TYPES.len())];
    let base = Case { type_name: name.to_string(), value_seed: r.next(), simple: r.chance(50), op: Op::Ser(SerPlan::None, true) };
    let mut cases = vec![base.clone(), Case { op: Op::Ser(SerPlan::None, false), ..base.clone() }];
    let with = |op: Op| Case { op, ..base.clone() };
    let probe = run_case(&base);
    if probe.violation.is_some() {
        return cases;
    }
    let is_f32 = name.ends_with("32") || name.contains("32>");
    // --- the way out: every single-fault position
    for hr in [true, false] {
        let n = if hr { probe.history.len() } else { run_case(&with(Op::Ser(SerPlan::None, false))).history.len() };
        for k in 0..n {
            cases.push(with(Op::Ser(SerPlan::FailOnce(k), hr)));
            cases.push(with(Op::Ser(SerPlan::FailFrom(k), hr)));
        }
        if thorough && n <= 30 {
            for a in 0..n {
                for b in (a + 1)..n {
                    cases.push(with(Op::Ser(SerPlan::FailSet(vec![a, b]), hr)));
                }
            }
        }
        for _ in 0..(if thorough { 8 } else { 2 }) {
            cases.push(with(Op::Ser(SerPlan::Random { permille: [30, 100, 300, 600][r.below(4)], seed: r.next() }, hr)));
            let mut set: Vec<usize> = (0..1 + r.below(3)).map(|_| r.below(n.max(1))).collect();
            set.sort();
            set.dedup();
            cases.push(with(Op::Ser(SerPlan::FailSet(set), hr)));
        }
    }
    // --- the way in: every presentation fault-free; every single-fault position under the chosen ones
    let all = presentations(&mut r, is_f32, true);
    for p in &all {
        cases.push(with(Op::De(*p, DePlan::None)));
    }
    // refreshed in place: into a number that differs everywhere, and into one that compares equal by real parts
    for p in [all[0], all[1], all[1 + r.below(all.len() - 1)]] {
        for near in [false, true] {
            cases.push(with(Op::DeInPlace(p, DePlan::None, near)));
        }
        let m = run_case(&with(Op::DeInPlace(p, DePlan::None, true))).history.len();
        if m > 0 {
            cases.push(with(Op::DeInPlace(p, DePlan::FailOnce(r.below(m)), true)));
        }
    }
    let swept = if thorough { all.clone() } else { presentations(&mut r, is_f32, false) };
    for p in &swept {
        let m = run_case(&with(Op::De(*p, DePlan::None))).history.len();
        for k in 0..m {
            cases.push(with(Op::De(*p, DePlan::FailOnce(k))));
            if thorough || k % 2 == (i % 2) as usize {
                cases.push(with(Op::De(*p, DePlan::FailFrom(k))));
            }
        }
        for _ in 0..(if thorough { 4 } else { 1 }) {
            cases.push(with(Op::De(*p, DePlan::Random { permille: [30, 100, 300][r.below(3)], seed: r.next() })));
            let mut set: Vec<usize> = (0..2 + r.below(2)).map(|_| r.below(m.max(1))).collect();
            set.sort();
            set.dedup();
            cases.push(with(Op::De(*p, DePlan::FailSet(set))));
        }
    }
    // --- the real format end to end
    for path in [JsonPath::Str, JsonPath::Pretty, JsonPath::Vec, JsonPath::Value, JsonPath::Reader] {
        cases.push(with(Op::Json(path)));
    }
    let wprobe = run_case(&with(Op::JsonWriter { fail_at: None, one_byte: false }));
    cases.push(with(Op::JsonWriter { fail_at: None, one_byte: false }));
    cases.push(with(Op::JsonWriter { fail_at: None, one_byte: true }));
    let calls: usize = wprobe.history.first().and_then(|s| s.rsplit(' ').next()).and_then(|s| s.parse().ok()).unwrap_or(0);
    let len = wprobe.history.get(1).map(|s| s.len()).unwrap_or(0);
    let stride_w = if thorough { 1 } else { (calls / 24).max(1) };
    let mut k = r.below(stride_w);
    while k < calls {
        cases.push(with(Op::JsonWriter { fail_at: Some(k), one_byte: false }));
        k += stride_w;
    }
    let stride_t = if thorough { 1 } else { (len / 24).max(1) };
    let mut k = r.below(stride_t);
    while k < len {
        cases.push(with(Op::JsonTruncated { keep: k, reader: (k + i as usize) % 2 == 0 }));
        k += stride_t;
    }
    cases
}

fn op_tag(op: &Op) -> u64 {
    match op {
        Op::Ser(_, hr) => 1 + *hr as u64,
        Op::De(p, _) | Op::DeInPlace(p, _, _) => {
            (if matches!(op, Op::DeInPlace(..)) { 4096 } else { 0 }) + 10 + match p.shape { Shape::Map => 0, Shape::Seq => 1, Shape::MapByHint => 128 } + 2 * match p.order { Order::Written => 0, Order::Reversed => 1, Order::Sorted => 2, Order::Permuted(_) => 3 }
                + 8 * match p.keys { KeyForm::Str => 0, KeyForm::Owned => 1, KeyForm::Borrowed => 2, KeyForm::Bytes => 256, KeyForm::Index => 512 } + 32 * p.f32_as_f64 as u64 + 64 * p.human_readable as u64 + 8192 * p.no_size_hint as u64 + 16384 * p.narrow_floats as u64 + 32768 * p.integers as u64 + 1024 * match p.noise { Noise::None => 0, Noise::Unknown(_) => 1, Noise::Duplicate(_) => 2 }
        }
        Op::Json(p) => 100 + *p as u64,
        Op::JsonWriter { one_byte, .. } => 200 + *one_byte as u64,
        Op::JsonTruncated { reader, .. } => 300 + *reader as u64,
    }
}

fn history_hash(case: &Case, o: &Outcome) -> u64 {
    let mut h = 0xcbf29ce484222325u64;
    let mut feed = |x: u64| {
        h ^= x;
        h = h.wrapping_mul(0x100000001b3);
    };
    for b in case.type_name.bytes() {
        feed(b as u64);
    }
    feed(op_tag(&case.op));
    match &case.op {
        Op::JsonWriter { fail_at, .. } => feed(fail_at.map(|k| k as u64 + 1).unwrap_or(0)),
        Op::JsonTruncated { keep, .. } => feed(*keep as u64),
        _ => {
            for e in &o.history {
                for b in e.bytes() {
                    feed(b as u64);
                }
                feed(0xff);
            }
        }
    }
    feed(o.returned_ok as u64);
    h
}

#[derive(Default)]
struct Stats {
    values: u64,
    cases: u64,
    faulted_cases: u64,
    err_returns: u64,
    seam_calls: u64,
    json_skipped_inexact: u64,
    json_cases: u64,
    fired: BTreeMap<String, u64>,
    ops: BTreeMap<String, u64>,
    types: BTreeMap<String, u64>,
    distinct_faulted: HashSet<u64>,
    distinct_all: HashSet<u64>,
    digest: u64,
    samples: Vec<serde_json::Value>,
    /// first violating case per finding key: (value index, case index, case, outcome, first value index of the worker)
    violations: BTreeMap<String, (u64, usize, Case, Outcome, u64)>,
}

fn op_name(op: &Op) -> &'static str {
    match op {
        Op::Ser(SerPlan::None, _) => "ser/fault-free",
        Op::Ser(..) => "ser/faulted",
        Op::De(_, DePlan::None) => "de/fault-free presentation",
        Op::De(..) => "de/faulted",
        Op::DeInPlace(_, DePlan::None, _) => "de_in_place/fault-free",
        Op::DeInPlace(..) => "de_in_place/faulted",
        Op::Json(_) => "json/roundtrip",
        Op::JsonWriter { fail_at: None, .. } => "json/writer fault-free",
        Op::JsonWriter { .. } => "json/writer faulted",
        Op::JsonTruncated { .. } => "json/truncated",
    }
}

fn run_range(seed: u64, from: u64, to: u64, thorough: bool) -> Stats {
    let mut st = Stats::default();
    for i in from..to {
        let cases = cases_for_value(seed, i, thorough);
        st.values += 1;
        *st.types.entry(cases[0].type_name.clone()).or_default() += 1;
        for (ci, case) in cases.iter().enumerate() {
            let o = run_case(case);
            st.cases += 1;
            *st.ops.entry(op_name(&case.op).to_string()).or_default() += 1;
            if matches!(case.op, Op::Ser(..) | Op::De(..) | Op::DeInPlace(..)) {
                st.seam_calls += o.history.len() as u64;
            } else {
                st.json_cases += 1;
            }
            if o.skipped_inexact {
                st.json_skipped_inexact += 1;
            }
            let h = history_hash(case, &o);
            st.digest = st.digest.wrapping_add(h.wrapping_mul(0x9E3779B97F4A7C15) ^ (h >> 7));
            st.distinct_all.insert(h);
            if !o.faults_fired.is_empty() {
                st.faulted_cases += 1;
                st.distinct_faulted.insert(h);
                for (k, v) in &o.faults_fired {
                    *st.fired.entry(k.clone()).or_default() += v;
                }
            }
            if !o.returned_ok {
                st.err_returns += 1;
            }
            if st.samples.len() < 4 && !o.faults_fired.is_empty() && (i - from) % 3 == 0 && ci % 11 == 5 {
                st.samples.push(serde_json::json!({ "case": case, "stored": o.stored, "returned_ok": o.returned_ok, "result": o.result, "history": o.history }));
            }
            if let Some((class, _)) = &o.violation {
                let key = finding_key(class, case);
                if st.violations.len() < 256 && !st.violations.contains_key(&key) {
                    st.violations.insert(key, (i, ci, case.clone(), o, from));
                }
            }
        }
    }
    st
}

fn same_class(case: &Case, class: &Class) -> Option<Outcome> {
    let o = run_case(case);
    match &o.violation {
        Some((c, _)) if c == class => Some(o),
        _ => None,
    }
}

/// every single-fault variant of the same kind of operation, for re-searching the fault position after the
/// subject was simplified
fn single_fault_variants(c: &Case) -> Vec<Case> {
    let mut v = vec![];
    let with = |op: Op| Case { op, ..c.clone() };
    match &c.op {
        Op::Ser(_, hr) => {
            let n = run_case(&with(Op::Ser(SerPlan::None, *hr))).history.len();
            for k in 0..n {
                v.push(with(Op::Ser(SerPlan::FailOnce(k), *hr)));
                v.push(with(Op::Ser(SerPlan::FailFrom(k), *hr)));
            }
        }
        Op::De(p, _) => {
            let n = run_case(&with(Op::De(*p, DePlan::None))).history.len();
            v.push(with(Op::De(*p, DePlan::None)));
            for k in 0..n {
                v.push(with(Op::De(*p, DePlan::FailOnce(k))));
                v.push(with(Op::De(*p, DePlan::FailFrom(k))));
            }
        }
        Op::JsonWriter { one_byte, .. } => {
            let calls: usize = run_case(&with(Op::JsonWriter { fail_at: None, one_byte: *one_byte })).history.first().and_then(|s| s.rsplit(' ').next()).and_then(|s| s.parse().ok()).unwrap_or(0);
            for k in 0..calls {
                v.push(with(Op::JsonWriter { fail_at: Some(k), one_byte: *one_byte }));
            }
        }
        Op::JsonTruncated { reader, .. } => {
            let len = run_case(&with(Op::JsonWriter { fail_at: None, one_byte: false })).history.get(1).map(|s| s.len()).unwrap_or(0);
            for k in 0..len {
                v.push(with(Op::JsonTruncated { keep: k, reader: *reader }));
            }
        }
        Op::DeInPlace(p, _, near) => {
            let n = run_case(&with(Op::DeInPlace(*p, DePlan::None, *near))).history.len();
            v.push(with(Op::DeInPlace(*p, DePlan::None, *near)));
            for k in 0..n {
                v.push(with(Op::DeInPlace(*p, DePlan::FailOnce(k), *near)));
            }
        }
        Op::Json(_) => {}
    }
    v
}

/// Shrink a failing case while the same class of violation persists.
fn minimise(mut case: Case, class: &Class, known_keys: &[String]) -> (Case, Outcome, u32) {
    let mut steps = 0;
    let mut best = same_class(&case, class).expect("minimise called on a passing case");
    macro_rules! try_case {
        ($c:expr) => {{
            let c: Case = $c;
            if c != case {
                if let Some(o) = same_class(&c, class) {
                    case = c;
                    best = o;
                    steps += 1;
                    true
                } else {
                    false
                }
            } else {
                false
            }
        }};
    }
    // 1. the simplest operation that still shows it
    if matches!(class, Class::StoredForm) {
        if case.op != Op::Ser(SerPlan::None, true) && !try_case!(Case { op: Op::Ser(SerPlan::None, true), ..case.clone() }) {
            try_case!(Case { op: Op::Ser(SerPlan::None, false), ..case.clone() });
        }
    }
    if let Op::De(p, plan) = case.op.clone() {
        // simplest presentation first
        for q in [
            Presentation { shape: Shape::Map, order: Order::Written, keys: KeyForm::Str, f32_as_f64: false, human_readable: true, noise: Noise::None, no_size_hint: false, narrow_floats: false, integers: false },
            Presentation { shape: Shape::Map, order: Order::Reversed, keys: KeyForm::Str, f32_as_f64: p.f32_as_f64, human_readable: true, noise: Noise::None, no_size_hint: false, narrow_floats: false, integers: false },
            Presentation { shape: Shape::Map, order: Order::Sorted, keys: KeyForm::Str, f32_as_f64: p.f32_as_f64, human_readable: true, noise: Noise::None, no_size_hint: false, narrow_floats: false, integers: false },
            Presentation { noise: Noise::None, ..p },
            Presentation { human_readable: true, ..p },
            Presentation { keys: KeyForm::Str, ..p },
            Presentation { f32_as_f64: false, ..p },
        ] {
            if try_case!(Case { op: Op::De(q, plan.clone()), ..case.clone() }) {
                break;
            }
        }
    }
    // 2. explicit fault set instead of seeded plans, then drop faults one by one
    if let Op::Ser(_, hr) = case.op.clone() {
        let rejected: Vec<usize> = best.history.iter().enumerate().filter(|(_, e)| e.starts_with('!')).map(|(i, _)| i).collect();
        if !rejected.is_empty() {
            try_case!(Case { op: Op::Ser(SerPlan::FailSet(rejected.clone()), hr), ..case.clone() });
            if let Op::Ser(SerPlan::FailSet(set), _) = case.op.clone() {
                let mut cur = set;
                let mut idx = 0;
                while cur.len() > 1 && idx < cur.len() {
                    let mut t = cur.clone();
                    t.remove(idx);
                    if try_case!(Case { op: Op::Ser(SerPlan::FailSet(t.clone()), hr), ..case.clone() }) {
                        cur = t;
                    } else {
                        idx += 1;
                    }
                }
                if cur.len() == 1 {
                    try_case!(Case { op: Op::Ser(SerPlan::FailOnce(cur[0]), hr), ..case.clone() });
                }
            }
        }
    }
    if let Op::De(p, _) = case.op.clone() {
        let failed: Vec<usize> = best.history.iter().enumerate().filter(|(_, e)| e.starts_with('!')).map(|(i, _)| i).collect();
        if !failed.is_empty() {
            try_case!(Case { op: Op::De(p, DePlan::FailSet(failed.clone())), ..case.clone() });
            if let Op::De(_, DePlan::FailSet(set)) = case.op.clone() {
                let mut cur = set;
                let mut idx = 0;
                while cur.len() > 1 && idx < cur.len() {
                    let mut t = cur.clone();
                    t.remove(idx);
                    if try_case!(Case { op: Op::De(p, DePlan::FailSet(t.clone())), ..case.clone() }) {
                        cur = t;
                    } else {
                        idx += 1;
                    }
                }
                if cur.len() == 1 {
                    try_case!(Case { op: Op::De(p, DePlan::FailOnce(cur[0])), ..case.clone() });
                }
            }
        }
    }
    // 3. simpler values, then the simplest type that still shows the class; the fault position is searched
    //    again after each change (a simpler subject has a different call history)
    let mut cands: Vec<Case> = vec![Case { simple: true, ..case.clone() }];
    for (name, _) in TYPES.iter() {
        if known_keys.contains(&format!("{:?}:{}", class, name)) {
            continue;
        }
        cands.push(Case { type_name: name.to_string(), simple: true, ..case.clone() });
        cands.push(Case { type_name: name.to_string(), ..case.clone() });
    }
    for cand in cands {
        let cur = TYPES.iter().position(|(n, _)| *n == case.type_name).unwrap_or(0);
        let pos = TYPES.iter().position(|(n, _)| *n == cand.type_name).unwrap_or(usize::MAX);
        if pos > cur || (pos == cur && (case.simple || !cand.simple)) {
            continue;
        }
        let cand = Case { op: case.op.clone(), ..cand };
        if try_case!(cand.clone()) {
            continue;
        }
        for v in single_fault_variants(&cand) {
            if try_case!(v) {
                break;
            }
        }
    }
    (case, best, steps)
}


fn in_fresh_thread<T: Send + 'static>(f: impl FnOnce() -> T + Send + 'static) -> T {
    std::thread::spawn(f).join().expect("harness thread panicked")
}

/// Everything a worker executed, in order, from value `from` up to case `ci` of value `vi` (probes included):
/// re-executed on a fresh thread with the trace log on.
fn trace_for(seed: u64, thorough: bool, from: u64, vi: u64, ci: usize) -> Vec<Case> {
    in_fresh_thread(move || {
        TRACE.with(|t| *t.borrow_mut() = Some(vec![]));
        for v in from..=vi {
            let cases = cases_for_value(seed, v, thorough);
            let upto = if v == vi { (ci + 1).min(cases.len()) } else { cases.len() };
            for c in &cases[..upto] {
                run_case(c);
            }
        }
        TRACE.with(|t| t.borrow_mut().take()).unwrap_or_default()
    })
}

/// set by --isolated: every replay attempt runs in a process of its own (state shared between threads - a static
/// behind a lock - survives a fresh thread, not a fresh process)
static ISOLATED: std::sync::atomic::AtomicBool = std::sync::atomic::AtomicBool::new(false);
static VERIF_DIR: std::sync::OnceLock<String> = std::sync::OnceLock::new();
static TMP_COUNTER: std::sync::atomic::AtomicU64 = std::sync::atomic::AtomicU64::new(0);

fn sequence_violates_in_fresh_process(seq: &[Case], class: &Class) -> Option<Outcome> {
    let dir = format!("{}/replays", VERIF_DIR.get().map(String::as_str).unwrap_or("/verif"));
    let _ = std::fs::create_dir_all(&dir);
    let path = format!("{dir}/tmp-{}-{}.json", std::process::id(), TMP_COUNTER.fetch_add(1, std::sync::atomic::Ordering::Relaxed));
    let rf = ReplayFile {
        property: "C16".into(), class: class.clone(), message: String::new(), seed: 0, value_index: 0, case_index: 0, case: seq.last()?.clone(), sequence: Some(seq.to_vec()), minimised_from: None, minimise_steps: 0, number: String::new(), stored: String::new(), returned_ok: false, result: String::new(), history: vec![], finding_key: String::new(),
    };
    std::fs::write(&path, serde_json::to_string(&rf).ok()?).ok()?;
    let out = std::process::Command::new(std::env::current_exe().ok()?).args(["--replay", &path, "--verif-dir", VERIF_DIR.get().map(String::as_str).unwrap_or("/verif")]).output().ok()?;
    let _ = std::fs::remove_file(&path);
    let text = String::from_utf8_lossy(&out.stdout);
    let tag = format!("  violation: {class:?}: ");
    let msg = text.lines().find_map(|l| l.strip_prefix(&tag))?;
    if out.status.code() != Some(1) {
        return None;
    }
    Some(Outcome { stored: String::new(), expect: String::new(), returned_ok: false, result: String::new(), history: vec![], violation: Some((class.clone(), msg.to_string())), faults_fired: BTreeMap::new(), skipped_inexact: false })
}

fn sequence_violates(seq: &[Case], class: &Class) -> Option<Outcome> {
    if ISOLATED.load(std::sync::atomic::Ordering::Relaxed) {
        return sequence_violates_in_fresh_process(seq, class);
    }
    let (seq, class) = (seq.to_vec(), class.clone());
    in_fresh_thread(move || {
        let mut last = None;
        for c in &seq {
            last = Some(run_case(c));
        }
        last.filter(|o| matches!(&o.violation, Some((c, _)) if *c == class))
    })
}

/// Shrink a history that ends in a violation: shortest suffix first, then delta debugging on the prefix (the
/// failing case stays last), then simple values everywhere.
fn minimise_sequence(mut seq: Vec<Case>, class: &Class) -> (Vec<Case>, Outcome, u32) {
    let mut best = sequence_violates(&seq, class).expect("minimise_sequence called on a passing history");
    let mut steps = 0;
    let mut budget = 600;
    let mut k = 2;
    while k < seq.len() && budget > 0 {
        let cand = seq[seq.len() - k..].to_vec();
        budget -= 1;
        if let Some(o) = sequence_violates(&cand, class) {
            seq = cand;
            best = o;
            steps += 1;
            break;
        }
        k *= 2;
    }
    let mut chunk = (seq.len() - 1).max(1) / 2;
    while chunk >= 1 && budget > 0 {
        let mut start = 0;
        let mut removed_any = false;
        while start + chunk <= seq.len() - 1 && budget > 0 {
            let mut cand = seq.clone();
            cand.drain(start..start + chunk);
            budget -= 1;
            if let Some(o) = sequence_violates(&cand, class) {
                seq = cand;
                best = o;
                steps += 1;
                removed_any = true;
            } else {
                start += chunk;
            }
        }
        if chunk == 1 && !removed_any {
            break;
        }
        chunk = if removed_any { chunk.min((seq.len() - 1).max(1)) } else { chunk / 2 };
    }
    let cand: Vec<Case> = seq.iter().map(|c| Case { simple: true, ..c.clone() }).collect();
    if cand != seq {
        if let Some(o) = sequence_violates(&cand, class) {
            seq = cand;
            best = o;
            steps += 1;
        }
    }
    (seq, best, steps)
}

#[derive(Serialize, Deserialize)]
struct ReplayFile {
    property: String,
    class: Class,
    message: String,
    seed: u64,
    value_index: u64,
    case_index: usize,
    case: Case,
    /// for a violation that depends on what was executed before on the same thread: the whole history, in order;
    /// `case` is its last element
    #[serde(default)]
    sequence: Option<Vec<Case>>,
    minimised_from: Option<Case>,
    minimise_steps: u32,
    number: String,
    stored: String,
    returned_ok: bool,
    result: String,
    history: Vec<String>,
    finding_key: String,
}

/// Identity of a finding for the known-findings file: what fails, not which seed found it.
fn finding_key(class: &Class, case: &Case) -> String {
    format!("{:?}:{}", class, case.type_name)
}

fn known_findings(path: &str) -> Vec<(String, String)> {
    let Ok(txt) = std::fs::read_to_string(path) else { return vec![] };
    let Ok(v) = serde_json::from_str::<serde_json::Value>(&txt) else { return vec![] };
    v.get("known").and_then(|k| k.as_array()).map(|a| {
        a.iter()
            .filter(|e| e.get("property").and_then(|p| p.as_str()) == Some("C16"))
            .filter_map(|e| Some((e.get("key")?.as_str()?.to_string(), e.get("what").and_then(|w| w.as_str()).unwrap_or("").to_string())))
            .collect()
    }).unwrap_or_default()
}

fn arg(args: &[String], name: &str) -> Option<String> {
    args.iter().position(|a| a == name).and_then(|i| args.get(i + 1).cloned())
}

fn main() {
    let args: Vec<String> = std::env::args().collect();
    let verif_dir = arg(&args, "--verif-dir").unwrap_or_else(|| "/verif".to_string());
    let _ = VERIF_DIR.set(verif_dir.clone());
    let isolated = args.iter().any(|a| a == "--isolated");
    ISOLATED.store(isolated, std::sync::atomic::Ordering::Relaxed);
    std::panic::set_hook(Box::new(|_| {}));
    if let Some(path) = arg(&args, "--replay") {
        let txt = std::fs::read_to_string(&path).unwrap_or_else(|e| { eprintln!("cannot read {path}: {e}"); std::process::exit(2) });
        let rf: ReplayFile = serde_json::from_str(&txt).unwrap_or_else(|e| { eprintln!("bad replay file: {e}"); std::process::exit(2) });
        if let Some(seq) = &rf.sequence {
            println!("replay of {path}: a history of {} operations on one thread", seq.len());
            for c in &seq[..seq.len().saturating_sub(1)] {
                let o = run_case(c);
                println!("  step: {} {:?} -> {}", c.type_name, c.op, if o.returned_ok { "Ok" } else { "Err" });
            }
        }
        let o = run_case(&rf.case);
        println!("replay of {path}: type {} op {:?}", rf.case.type_name, rf.case.op);
        println!("  number   : {}", o.expect);
        println!("  stored   : {}", o.stored);
        println!("  returned : {} {}", if o.returned_ok { "Ok" } else { "Err" }, o.result);
        println!("  history  : {}", o.history.join(" "));
        match o.violation {
            Some((c, m)) => {
                println!("  violation: {c:?}: {m}");
                println!("VIOLATION property=C16 replay={path}");
                std::process::exit(1);
            }
            None => {
                println!("  no violation on this tree");
                std::process::exit(0);
            }
        }
    }
    let tier = arg(&args, "--tier").or_else(|| std::env::var("VERIF_TIER").ok()).unwrap_or_else(|| "quick".to_string());
    let thorough = tier == "thorough";
    let seed: u64 = arg(&args, "--seed").or_else(|| std::env::var("VERIF_SEED").ok()).and_then(|s| s.trim().parse().ok()).unwrap_or(20261002);
    let values: u64 = arg(&args, "--values").and_then(|s| s.parse().ok()).unwrap_or(if thorough { 40_000 } else { 1_500 });
    let threads: u64 = if isolated { 1 } else { arg(&args, "--threads").and_then(|s| s.parse().ok()).unwrap_or_else(|| std::thread::available_parallelism().map(|n| n.get() as u64).unwrap_or(4)) };
    let evidence_path = arg(&args, "--evidence").unwrap_or_else(|| format!("{verif_dir}/evidence/C16.json"));
    println!("C16 serde seam simulation: seed={seed} tier={tier} values={values} threads={threads} types={}", TYPES.len());
    let t0 = Instant::now();

    let run_all = |nthreads: u64, n: u64| -> Stats {
        let chunk = (n + nthreads - 1) / nthreads;
        let handles: Vec<_> = (0..nthreads)
            .map(|t| {
                let (from, to) = (t * chunk, ((t + 1) * chunk).min(n));
                std::thread::spawn(move || run_range(seed, from, to.max(from), thorough))
            })
            .collect();
        let mut total = Stats::default();
        for h in handles {
            let s = h.join().expect("harness thread panicked");
            total.values += s.values;
            total.cases += s.cases;
            total.faulted_cases += s.faulted_cases;
            total.err_returns += s.err_returns;
            total.seam_calls += s.seam_calls;
            total.json_cases += s.json_cases;
            total.json_skipped_inexact += s.json_skipped_inexact;
            total.digest = total.digest.wrapping_add(s.digest);
            for (k, v) in s.fired {
                *total.fired.entry(k).or_default() += v;
            }
            for (k, v) in s.ops {
                *total.ops.entry(k).or_default() += v;
            }
            for (k, v) in s.types {
                *total.types.entry(k).or_default() += v;
            }
            total.distinct_faulted.extend(s.distinct_faulted);
            total.distinct_all.extend(s.distinct_all);
            if total.samples.len() < 4 {
                total.samples.extend(s.samples.into_iter().take(2));
            }
            for (k, v) in s.violations {
                let better = total.violations.get(&k).map_or(true, |b| (v.0, v.1) < (b.0, b.1));
                if better {
                    total.violations.insert(k, v);
                }
            }
        }
        total
    };

    let st = run_all(threads, values);
    let main_wall = t0.elapsed().as_secs_f64();

    // determinism: the same seed under another partition of the work gives the same multiset of histories
    let det_values = (values / 4).clamp(1, 1000);
    let d1 = if isolated { Stats::default() } else { run_all(threads, det_values) };
    let d2 = if isolated { Stats::default() } else { run_all(3, det_values) };
    let deterministic = d1.digest == d2.digest && d1.cases == d2.cases && d1.violations.keys().eq(d2.violations.keys());
    if !isolated && !deterministic && st.violations.is_empty() && d1.violations.is_empty() && d2.violations.is_empty() {
        // the harness is a pure function of (seed, index): the code under test behaves differently depending on
        // what the thread executed before, without (so far) breaking an invariant.  Not a verdict; not silence.
        eprintln!("HARNESS ERROR: two executions of seed {seed} differ (digest {:x} vs {:x}, cases {} vs {}): behaviour depends on the history of the thread", d1.digest, d2.digest, d1.cases, d2.cases);
        std::process::exit(2);
    }

    let mut exit = 0;
    let mut known_hits: Vec<String> = vec![];
    let known = known_findings(&format!("{verif_dir}/known_findings.json"));
    let mut found: Vec<(&String, &(u64, usize, Case, Outcome, u64))> = st.violations.iter().collect();
    found.sort_by_key(|(_, v)| (v.0, v.1));
    let mut unknown_keys: Vec<String> = vec![];
    for (key, (vi, ci, case, o, worker_from)) in found {
        if let Some((_, what)) = known.iter().find(|(k, _)| k == key) {
            println!("KNOWN-FINDING: property=C16 {key}: {what}");
            known_hits.push(key.clone());
            continue;
        }
        unknown_keys.push(key.clone());
        if exit == 1 {
            continue;
        }
        let (class, msg) = o.violation.clone().unwrap();
        // does the case fail on its own?  Asked of a fresh process, so that neither thread-local nor global state left by
        // the batch can answer for it.
        let alone = sequence_violates_in_fresh_process(std::slice::from_ref(case), &class).is_some();
        let dir = format!("{verif_dir}/replays");
        let _ = std::fs::create_dir_all(&dir);
        let path = format!("{dir}/C16-seed{seed}-v{vi}-c{ci}.json");
        if !alone {
            let full = trace_for(seed, thorough, *worker_from, *vi, *ci);
            let confirmed = sequence_violates(&full, &class).is_some();
            let minimised = if confirmed { Some(minimise_sequence(full.clone(), &class)) } else { None };
            let replays = minimised.as_ref().map_or(false, |(seq, _, _)| isolated || sequence_violates_in_fresh_process(seq, &class).is_some());
            if !replays {
                if !isolated {
                    // state shared between threads?  Search again with ONE worker in a process of its own, in which every
                    // replay attempt is a fresh process too: the global order of operations is then deterministic.
                    eprintln!("the violation {key} seen at value {vi} case {ci} reproduces neither alone nor from the history of its worker: searching again with one worker and process-isolated replays ...");
                    let child = std::process::Command::new(std::env::current_exe().expect("current_exe"))
                        .args(["--isolated", "--tier", &tier, "--seed", &seed.to_string(), "--values", &(st.violations.values().map(|v| v.0).max().unwrap_or(*vi) + 1).to_string(), "--verif-dir", &verif_dir, "--evidence", &format!("{verif_dir}/replays/isolated-evidence.json")])
                        .output();
                    if let Ok(out) = child {
                        let text = String::from_utf8_lossy(&out.stdout);
                        if out.status.code() == Some(1) && text.contains("VIOLATION property=C16") {
                            for l in text.lines().filter(|l| l.starts_with("violation class") || l.starts_with("  ") || l.starts_with("VIOLATION")) {
                                println!("{l}");
                            }
                            println!("  (found by the process-isolated search: the state involved is shared between threads)");
                            exit = 1;
                            continue;
                        }
                    }
                }
                eprintln!("HARNESS ERROR: the violation {key} seen at value {vi} case {ci} reproduces neither alone nor from the history of its worker (values {worker_from}..={vi})");
                std::process::exit(2);
            }
            let n0 = full.len();
            let (seq, mo, steps) = minimised.expect("confirmed above");
            let last = seq.last().unwrap().clone();
            let rf = ReplayFile {
                property: "C16".into(), class: class.clone(), message: mo.violation.as_ref().map(|v| v.1.clone()).unwrap_or(msg), seed, value_index: *vi, case_index: *ci,
                case: last, sequence: Some(seq.clone()), minimised_from: None, minimise_steps: steps,
                number: mo.expect.clone(), stored: mo.stored.clone(), returned_ok: mo.returned_ok, result: mo.result.clone(), history: mo.history.clone(), finding_key: key.clone(),
            };
            std::fs::write(&path, serde_json::to_string_pretty(&rf).unwrap()).expect("cannot write replay file");
            println!("violation class {class:?} on {} (value {vi}, case {ci}) that depends on what the thread executed before; history of {n0} operations minimised in {steps} steps to {}:", case.type_name, seq.len());
            for c in &seq {
                println!("    {} {:?}", c.type_name, c.op);
            }
            println!("  {}", rf.message);
            println!("VIOLATION property=C16 replay={path}");
            exit = 1;
            continue;
        }
        let (mcase, mo, steps) = minimise(case.clone(), &class, &known.iter().map(|(k, _)| k.clone()).collect::<Vec<_>>());
        let rf = ReplayFile {
            property: "C16".into(), class: class.clone(), message: mo.violation.as_ref().map(|v| v.1.clone()).unwrap_or(msg), seed, value_index: *vi, case_index: *ci,
            case: mcase.clone(), sequence: None, minimised_from: if mcase != *case { Some(case.clone()) } else { None }, minimise_steps: steps,
            number: mo.expect.clone(), stored: mo.stored.clone(), returned_ok: mo.returned_ok, result: mo.result.clone(), history: mo.history.clone(), finding_key: key.clone(),
        };
        std::fs::write(&path, serde_json::to_string_pretty(&rf).unwrap()).expect("cannot write replay file");
        println!("violation class {class:?} on {} (value {vi}, case {ci}); minimised in {steps} steps to {} {:?}", case.type_name, mcase.type_name, mcase.op);
        println!("  {}", rf.message);
        println!("VIOLATION property=C16 replay={path}");
        exit = 1;
    }
    let violations = unknown_keys.len() as i32;
    let wall = t0.elapsed().as_secs_f64();
    let rule = "one case = (type, seeded value, operation with presentation and fault plan) executed against the real derived Serialize/Deserialize code; \
for every value: the fault-free serialization (J1), EVERY single-fault position on the way out (reject-once and reject-from at each serializer call), every presentation of the recorded output \
fault-free (sequence form; map form restricted to and ordered by the `fields` hint of deserialize_struct; map form in written / reversed / key-sorted / two seeded per-struct permutations x transient / owned / borrowed keys; keys as bytes or as field positions (an impl may refuse these: Err tolerated, Ok must restore exactly); f32 parts also as f64; each as a format answering is_human_readable() true and, for the binary-format shapes, false), EVERY single-fault position on the way in \
under the swept presentations (quick: 9 per value; thorough: all), seeded multi-fault plans, and the serde_json tier (5 round-trip paths, writer failing at its k-th write, output truncated to k bytes). \
The thorough tier adds EVERY pair of rejected serializer calls for histories of at most 30 calls. distinct_nontrivial = number of distinct histories (type, operation, presentation, per-call kind/name/verdict, return) among cases in which at least one injected fault actually fired";
    let ev = serde_json::json!({
        "property_id": "C16",
        "tier": tier,
        "seed": seed,
        "level": "fault_enumeration",
        "coverage": {
            "evaluations": st.cases,
            "distinct_nontrivial": st.distinct_faulted.len(),
            "rule": rule,
            "samples": st.samples,
            "values_generated": st.values,
            "cases_by_operation": st.ops,
            "cases_with_a_fault_fired": st.faulted_cases,
            "distinct_histories_all": st.distinct_all.len(),
            "operations_that_reported_error": st.err_returns,
            "seam_calls_simulated": st.seam_calls,
            "fault_kinds_fired": st.fired,
            "serde_json_tier_cases": st.json_cases,
            "serde_json_cases_skipped_because_the_format_does_not_represent_a_leaf_exactly": st.json_skipped_inexact,
            "types_covered": st.types.len(),
            "values_per_type": st.types,
            "simulated_runs_per_hour": (st.cases as f64 / main_wall.max(1e-9) * 3600.0) as u64,
            "seeds_per_hour_at_this_tier": (3600.0 / wall.max(1e-9)) as u64,
            "simulated_time": "none: the code under test reads no clock and has no timers; a run is one serialize or deserialize call",
            "determinism_check": { "values": det_values, "cases": d1.cases, "thread_partitions": [threads, 3], "digest_equal": deterministic, "digest": format!("{:016x}", d1.digest) },
            "real_components": ["the expansions of #[derive(Serialize, Deserialize)] on Dual, Dual2, Dual3, HyperDual, HyperHyperDual inside num-dual (skipped marker, recursion through nested parts)", "serde's f32/f64/PhantomData impls and MapAccess/SeqAccess/identifier plumbing", "serde_json (end-to-end tier only)"],
            "stubbed_components": ["the data format: Serializer (ser.rs) and Deserializer (de.rs) under the simulator's presentations and fault plans", "io::Write behind serde_json::to_writer"],
            "invariants": ["J1 stored form: exactly the documented part names, each once, stored bits, nothing else; the field count announced to serialize_struct equals the fields written", "J2 round trip under every legal presentation, also through deserialize_in_place into an existing number; the visitor drains the map; the struct name asked for is the name written", "J3 a rejected serializer call implies Err", "J4 a failed struct/value/element delivery implies Err; Ok after a failed key probe only with the stored number", "J5 no spurious error or panic", "J6 serde_json end to end (values the path represents exactly), key set of the JSON text"],
            "known_findings_hit": known_hits,
            "unlisted_finding_keys": unknown_keys,
            "exhaustive": false
        },
        "assumptions": [
            "values are sampled (seeded); fault positions are swept exhaustively only for single faults per value and presentation",
            "finite part values only (the property's quantifier)",
            "part names are taken from the property text and the crate documentation of the pinned commit; field order and the struct's name are not part of C16 and are not compared",
            "keys as bytes or as field positions are presented, but an impl may refuse them (Err tolerated; Ok must restore the number exactly); likewise maps that also hold unknown entries or one entry twice; not presented at all: silently missing fields",
            "a JSON path is asserted only for numbers all of whose leaves that path round-trips exactly as plain floats"
        ],
        "wall_s": wall,
        "violations": violations
    });
    if let Some(parent) = std::path::Path::new(&evidence_path).parent() {
        let _ = std::fs::create_dir_all(parent);
    }
    std::fs::write(&evidence_path, serde_json::to_string_pretty(&ev).unwrap()).expect("cannot write evidence");
    println!(
        "values={} cases={} faulted={} distinct_faulted_histories={} err_returns={} types={} json_skipped_inexact={}/{} wall={:.1}s deterministic={}",
        st.values, st.cases, st.faulted_cases, st.distinct_faulted.len(), st.err_returns, st.types.len(), st.json_skipped_inexact, st.json_cases, wall, deterministic
    );
    println!("fault kinds fired: {:?}", st.fired);
    let _ = std::io::stdout().flush();
    std::process::exit(exit);
}
