//! The simulated `Deserializer`: presents a recorded tree (what the serializer was handed) to the real
//! `Deserialize` impls in one of the ways real data formats legitimately present the same data, and fails
//! accesses according to a fault plan.

use crate::model::{Node, SimError};
use crate::rng::Rng;
use serde::de::{self, DeserializeSeed, Visitor};
use serde::{Deserialize, Serialize};
use std::cell::RefCell;

#[derive(Clone, Copy, Debug, Serialize, Deserialize, PartialEq)]
pub enum Shape {
    /// self-describing formats: visit_map
    Map,
    /// visit_map, but only the entries named in the `fields` hint of deserialize_struct are presented, in the
    /// order of the hint - what serde's own `#[serde(flatten)]` buffer and property-lookup formats
    /// (serde-wasm-bindgen style) do; with no hint (deserialize_map / deserialize_any) everything is presented
    MapByHint,
    /// positional formats: visit_seq, fields in the order they were written
    Seq,
}
#[derive(Clone, Copy, Debug, Serialize, Deserialize, PartialEq)]
pub enum Order {
    Written,
    Reversed,
    /// sorted by key - what going through serde_json::Value does
    Sorted,
    /// an independent seeded permutation at every struct of the tree
    Permuted(u64),
}
#[derive(Clone, Copy, Debug, Serialize, Deserialize, PartialEq)]
pub enum KeyForm {
    /// transient: visit_str (from_reader)
    Str,
    /// owned: visit_string (from_value)
    Owned,
    /// borrowed from the input: visit_borrowed_str (from_str)
    Borrowed,
    /// the key as bytes: visit_bytes.  A hand-written impl may not support it: Err is tolerated, Ok must be right
    Bytes,
    /// the key as the position of the field in the written struct: visit_u64 (packed CBOR / MessagePack).
    /// A hand-written impl may not support it: Err is tolerated, Ok must be right
    Index,
}

impl KeyForm {
    /// serde's derive supports it; a hand-written impl need not
    pub fn optional(self) -> bool {
        matches!(self, KeyForm::Bytes | KeyForm::Index)
    }
}
#[derive(Clone, Copy, Debug, Serialize, Deserialize, PartialEq)]
pub struct Presentation {
    pub shape: Shape,
    pub order: Order,
    pub keys: KeyForm,
    /// JSON has one number type: f32 parts arrive through visit_f64
    pub f32_as_f64: bool,
    /// what the format answers to is_human_readable() (the serializer that produced the output answered the same)
    pub human_readable: bool,
    /// map forms only: besides the written entries the map also holds entries the number does not know (a file written
    /// by a newer version, a record embedded in a larger one) or one entry twice with the same value.  An impl may
    /// refuse these (deny_unknown_fields, duplicate-field errors): Err is tolerated, Ok must restore exactly.
    #[serde(default)]
    pub noise: Noise,
    /// MapAccess / SeqAccess answer None to size_hint (streaming formats) instead of the number of remaining entries
    #[serde(default)]
    pub no_size_hint: bool,
    /// f64 parts whose value is exactly an f32 arrive through visit_f32 (formats that store the narrowest exact float:
    /// serde_cbor, MessagePack float32); the widening is exact, so the number must be restored bit for bit
    #[serde(default)]
    pub narrow_floats: bool,
    /// parts with an integral value arrive through visit_i64 / visit_u64 (one-number-kind formats written by other
    /// producers).  serde's float visitors accept that; an impl may refuse it: Err tolerated, Ok must be right
    #[serde(default)]
    pub integers: bool,
}

#[derive(Clone, Copy, Debug, Serialize, Deserialize, PartialEq, Default)]
pub enum Noise {
    #[default]
    None,
    /// unknown entries (a float, a nested struct) at seeded positions
    Unknown(u64),
    /// one entry delivered twice (same value)
    Duplicate(u64),
}

#[derive(Clone, Debug, Serialize, Deserialize, PartialEq)]
pub enum DePlan {
    None,
    /// fail exactly the k-th access
    FailOnce(usize),
    /// fail the k-th and every later access (EOF)
    FailFrom(usize),
    FailSet(Vec<usize>),
    Random { permille: u32, seed: u64 },
}

#[derive(Clone, Debug, Serialize, PartialEq)]
pub struct DeEvent {
    /// struct | key | value | element | end
    pub kind: String,
    pub detail: String,
    pub ok: bool,
}

pub struct DeState {
    plan: DePlan,
    rng: Rng,
    pub history: Vec<DeEvent>,
    /// maps whose visitor returned Ok without having asked for the end of the map (by struct name)
    pub undrained: Vec<String>,
    /// (name given to deserialize_struct, name the struct was written under)
    pub name_mismatch: Vec<(String, String)>,
}

impl DeState {
    pub fn new(plan: DePlan) -> RefCell<DeState> {
        let seed = if let DePlan::Random { seed, .. } = &plan { *seed } else { 0 };
        RefCell::new(DeState { plan, rng: Rng::new(seed), history: vec![], undrained: vec![], name_mismatch: vec![] })
    }
    pub fn failed(&self) -> Vec<(usize, String)> {
        self.history.iter().enumerate().filter(|(_, e)| !e.ok).map(|(i, e)| (i, e.kind.clone())).collect()
    }
}

fn access(st: &RefCell<DeState>, kind: &str, detail: &str) -> Result<(), SimError> {
    let mut s = st.borrow_mut();
    let id = s.history.len();
    let fail = match &s.plan {
        DePlan::None => false,
        DePlan::FailOnce(k) => id == *k,
        DePlan::FailFrom(k) => id >= *k,
        DePlan::FailSet(v) => v.contains(&id),
        DePlan::Random { permille, .. } => {
            let p = *permille;
            s.rng.chance(p)
        }
    };
    s.history.push(DeEvent { kind: kind.to_string(), detail: detail.to_string(), ok: !fail });
    if fail {
        Err(SimError::Injected(id))
    } else {
        Ok(())
    }
}

#[derive(Clone, Copy)]
pub struct SimDe<'de> {
    pub node: &'de Node,
    pub st: &'de RefCell<DeState>,
    pub p: &'de Presentation,
    /// position in the tree, for the per-struct permutation
    pub path: u64,
}

fn order_of(p: &Presentation, fields: &[(String, Node)], path: u64) -> Vec<usize> {
    let n = fields.len();
    let mut idx: Vec<usize> = (0..n).collect();
    if p.shape == Shape::Seq {
        return idx;
    }
    match p.order {
        Order::Written => {}
        Order::Reversed => idx.reverse(),
        Order::Sorted => idx.sort_by(|a, b| fields[*a].0.cmp(&fields[*b].0)),
        Order::Permuted(seed) => {
            let mut r = Rng::new(crate::rng::mix(seed, path));
            for i in (1..n).rev() {
                let j = r.below(i + 1);
                idx.swap(i, j);
            }
        }
    }
    idx
}

impl<'de> de::Deserializer<'de> for SimDe<'de> {
    type Error = SimError;
    fn deserialize_any<V: Visitor<'de>>(self, v: V) -> Result<V::Value, SimError> {
        match self.node {
            Node::F64(b) => {
                let x = f64::from_bits(*b);
                if self.p.integers && x.fract() == 0.0 && x.abs() < 9.0e15 && (x != 0.0 || x.is_sign_positive()) {
                    if x >= 0.0 { v.visit_u64(x as u64) } else { v.visit_i64(x as i64) }
                } else if self.p.narrow_floats && (x as f32) as f64 == x && (x != 0.0 || true) {
                    v.visit_f32(x as f32)
                } else {
                    v.visit_f64(x)
                }
            }
            Node::F32(b) if self.p.integers && f32::from_bits(*b).fract() == 0.0 && f32::from_bits(*b).abs() < 1.6e7 && (f32::from_bits(*b) != 0.0 || f32::from_bits(*b).is_sign_positive()) => {
                let x = f32::from_bits(*b);
                if x >= 0.0 { v.visit_u64(x as u64) } else { v.visit_i64(x as i64) }
            }
            Node::F32(b) => {
                if self.p.f32_as_f64 {
                    v.visit_f64(f32::from_bits(*b) as f64)
                } else {
                    v.visit_f32(f32::from_bits(*b))
                }
            }
            Node::Struct { name, fields } => {
                access(self.st, "struct", name)?;
                let order = if self.p.shape == Shape::Seq { order_of(self.p, fields, self.path) } else { with_noise(order_of(self.p, fields, self.path), self.p.noise, self.path) };
                match self.p.shape {
                    Shape::Map | Shape::MapByHint => visit_map_checked(v, MapAcc { fields, order, pos: 0, pending: None, de: self }, name),
                    Shape::Seq => v.visit_seq(SeqAcc { fields, pos: 0, de: self }),
                }
            }
            Node::Other(s) => Err(SimError::Custom(format!("harness: cannot present {s}"))),
        }
    }
    serde::forward_to_deserialize_any! {
        bool i8 i16 i32 i64 i128 u8 u16 u32 u64 u128 f32 f64 char str string bytes byte_buf option unit
        unit_struct newtype_struct seq tuple tuple_struct map enum identifier ignored_any
    }
    fn deserialize_struct<V: Visitor<'de>>(self, _name: &'static str, hint: &'static [&'static str], v: V) -> Result<V::Value, SimError> {
        if let (Shape::MapByHint, Node::Struct { name, fields }) = (self.p.shape, self.node) {
            if name != _name {
                self.st.borrow_mut().name_mismatch.push((_name.to_string(), name.clone()));
            }
            access(self.st, "struct", name)?;
            // entries the hint names, in the order of the hint, each at most once
            let mut order = vec![];
            for h in hint {
                if let Some(i) = fields.iter().position(|(k, _)| k == h) {
                    if !order.contains(&i) {
                        order.push(i);
                    }
                }
            }
            let order = with_noise(order, self.p.noise, self.path);
            return visit_map_checked(v, MapAcc { fields, order, pos: 0, pending: None, de: self }, name);
        }
        if let Node::Struct { name, .. } = self.node {
            if name != _name {
                self.st.borrow_mut().name_mismatch.push((_name.to_string(), name.clone()));
            }
        }
        self.deserialize_any(v)
    }
    fn is_human_readable(&self) -> bool {
        self.p.human_readable
    }
}

/// visit_map, and afterwards: did the visitor ask for the end of the map?  A streaming format (CBOR indefinite-length
/// maps, as ciborium reads them) consumes its end marker inside the next_key call that answers None; a visitor that
/// returns as soon as it has all its fields leaves the marker unread, and the enclosing value misreads it.
fn visit_map_checked<'de, V: Visitor<'de>>(v: V, acc: MapAcc<'de>, name: &str) -> Result<V::Value, SimError> {
    let st = acc.de.st;
    let ends_before = st.borrow().history.iter().filter(|e| e.kind == "end").count();
    let opened = st.borrow().history.len();
    let r = v.visit_map(acc)?;
    let s = st.borrow();
    // an end probe recorded after this map was opened, not belonging to a nested map (nested maps opened later have
    // closed again by now: each adds exactly one end probe of its own when drained)
    let ends_now = s.history.iter().filter(|e| e.kind == "end").count();
    let nested_structs = s.history[opened..].iter().filter(|e| e.kind == "struct").count();
    drop(s);
    if ends_now - ends_before < nested_structs + 1 {
        st.borrow_mut().undrained.push(name.to_string());
    }
    Ok(r)
}

struct MapAcc<'de> {
    fields: &'de [(String, Node)],
    /// indices into `fields`; EXTRA_F / EXTRA_S stand for an unknown float / an unknown nested entry
    order: Vec<usize>,
    pos: usize,
    pending: Option<usize>,
    de: SimDe<'de>,
}

const EXTRA_F: usize = usize::MAX;
const EXTRA_S: usize = usize::MAX - 1;
static UNKNOWN_FLOAT: Node = Node::F64(0x4045_0000_0000_0000);

fn with_noise(mut order: Vec<usize>, noise: Noise, path: u64) -> Vec<usize> {
    match noise {
        Noise::None => {}
        Noise::Unknown(seed) => {
            let mut r = Rng::new(crate::rng::mix(seed, path));
            for _ in 0..1 + r.below(2) {
                let at = r.below(order.len() + 1);
                order.insert(at, if r.chance(500) { EXTRA_F } else { EXTRA_S });
            }
        }
        Noise::Duplicate(seed) => {
            let mut r = Rng::new(crate::rng::mix(seed, path));
            if !order.is_empty() {
                let which = order[r.below(order.len())];
                let at = r.below(order.len() + 1);
                order.insert(at, which);
            }
        }
    }
    order
}

impl<'de> de::MapAccess<'de> for MapAcc<'de> {
    type Error = SimError;
    fn next_key_seed<K: DeserializeSeed<'de>>(&mut self, seed: K) -> Result<Option<K::Value>, SimError> {
        if self.pos >= self.order.len() {
            access(self.de.st, "end", "")?;
            return Ok(None);
        }
        let i = self.order[self.pos];
        let (name, index): (&'de str, u64) = if i == EXTRA_F || i == EXTRA_S { ("zz_unknown", self.fields.len() as u64 + 7) } else { (&self.fields[i].0, i as u64) };
        access(self.de.st, "key", name)?;
        self.pending = Some(i);
        seed.deserialize(KeyDe { name, index, form: self.de.p.keys }).map(Some)
    }
    fn next_value_seed<S: DeserializeSeed<'de>>(&mut self, seed: S) -> Result<S::Value, SimError> {
        let Some(i) = self.pending.take() else {
            return Err(SimError::Custom("next_value called without a preceding next_key".into()));
        };
        self.pos += 1;
        if i == EXTRA_F || i == EXTRA_S {
            access(self.de.st, "value", "zz_unknown")?;
            // an unknown float, or an unknown record shaped like the enclosing one (presented without further noise)
            let node: &'de Node = if i == EXTRA_F || self.fields.is_empty() { &UNKNOWN_FLOAT } else { &self.fields[0].1 };
            return seed.deserialize(SimDe { node, path: crate::rng::mix(self.de.path, 0xEE), ..self.de });
        }
        access(self.de.st, "value", &self.fields[i].0)?;
        seed.deserialize(SimDe { node: &self.fields[i].1, path: crate::rng::mix(self.de.path, i as u64 + 1), ..self.de })
    }
    fn size_hint(&self) -> Option<usize> {
        (!self.de.p.no_size_hint).then(|| self.order.len() - self.pos)
    }
}

struct SeqAcc<'de> {
    fields: &'de [(String, Node)],
    pos: usize,
    de: SimDe<'de>,
}

impl<'de> de::SeqAccess<'de> for SeqAcc<'de> {
    type Error = SimError;
    fn next_element_seed<S: DeserializeSeed<'de>>(&mut self, seed: S) -> Result<Option<S::Value>, SimError> {
        if self.pos >= self.fields.len() {
            access(self.de.st, "end", "")?;
            return Ok(None);
        }
        let i = self.pos;
        self.pos += 1;
        access(self.de.st, "element", &self.fields[i].0)?;
        seed.deserialize(SimDe { node: &self.fields[i].1, path: crate::rng::mix(self.de.path, i as u64 + 1), ..self.de }).map(Some)
    }
    fn size_hint(&self) -> Option<usize> {
        (!self.de.p.no_size_hint).then(|| self.fields.len() - self.pos)
    }
}

struct KeyDe<'de> {
    name: &'de str,
    /// position of the field in the struct as it was written
    index: u64,
    form: KeyForm,
}

impl<'de> de::Deserializer<'de> for KeyDe<'de> {
    type Error = SimError;
    fn deserialize_any<V: Visitor<'de>>(self, v: V) -> Result<V::Value, SimError> {
        match self.form {
            KeyForm::Str => {
                let tmp = self.name.to_string();
                v.visit_str(&tmp)
            }
            KeyForm::Owned => v.visit_string(self.name.to_string()),
            KeyForm::Borrowed => v.visit_borrowed_str(self.name),
            KeyForm::Bytes => v.visit_bytes(self.name.as_bytes()),
            KeyForm::Index => v.visit_u64(self.index),
        }
    }
    serde::forward_to_deserialize_any! {
        bool i8 i16 i32 i64 i128 u8 u16 u32 u64 u128 f32 f64 char str string bytes byte_buf option unit
        unit_struct newtype_struct seq tuple tuple_struct map struct enum identifier ignored_any
    }
}

/// run `T::deserialize` on a recorded tree
pub fn deserialize_tree<'de, T: Deserialize<'de>>(node: &'de Node, st: &'de RefCell<DeState>, p: &'de Presentation) -> Result<T, SimError> {
    T::deserialize(SimDe { node, st, p, path: 1 })
}
