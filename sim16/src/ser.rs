//! The simulated `Serializer`: records every call it receives as a tree (model::Node) plus a flat history,
//! and rejects calls according to a fault plan.  The code that *makes* the calls - the expansion of
//! num-dual's `#[derive(Serialize)]`, recursing through nested parts - is real.

use crate::model::{Node, SimError};
use crate::rng::Rng;
use serde::ser::{self, Serialize};
use serde::Deserialize;
use std::cell::RefCell;

#[derive(Clone, Debug, serde::Serialize, Deserialize, PartialEq)]
pub enum SerPlan {
    None,
    /// reject exactly the k-th call (a momentarily full buffer, one failed write), accept all others
    FailOnce(usize),
    /// reject the k-th and every later call (closed pipe, exhausted quota)
    FailFrom(usize),
    FailSet(Vec<usize>),
    Random { permille: u32, seed: u64 },
}

#[derive(Clone, Debug, serde::Serialize, PartialEq)]
pub struct SerEvent {
    pub kind: String,
    pub detail: String,
    pub ok: bool,
}

pub struct SerState {
    plan: SerPlan,
    rng: Rng,
    pub history: Vec<SerEvent>,
}

impl SerState {
    pub fn new(plan: SerPlan) -> RefCell<SerState> {
        let seed = if let SerPlan::Random { seed, .. } = &plan { *seed } else { 0 };
        RefCell::new(SerState { plan, rng: Rng::new(seed), history: vec![] })
    }
    pub fn rejected(&self) -> Vec<usize> {
        self.history.iter().enumerate().filter(|(_, e)| !e.ok).map(|(i, _)| i).collect()
    }
}

fn call(st: &RefCell<SerState>, kind: &str, detail: &str) -> Result<(), SimError> {
    let mut s = st.borrow_mut();
    let id = s.history.len();
    let reject = match &s.plan {
        SerPlan::None => false,
        SerPlan::FailOnce(k) => id == *k,
        SerPlan::FailFrom(k) => id >= *k,
        SerPlan::FailSet(v) => v.contains(&id),
        SerPlan::Random { permille, .. } => {
            let p = *permille;
            s.rng.chance(p)
        }
    };
    s.history.push(SerEvent { kind: kind.to_string(), detail: detail.to_string(), ok: !reject });
    if reject {
        Err(SimError::Injected(id))
    } else {
        Ok(())
    }
}

#[derive(Clone, Copy)]
pub struct SimSer<'a> {
    pub st: &'a RefCell<SerState>,
    /// what the format answers to is_human_readable(): true for JSON, YAML, TOML; false for bincode, postcard, MessagePack, CBOR
    pub hr: bool,
}

pub struct Compound<'a> {
    st: &'a RefCell<SerState>,
    hr: bool,
    /// the number of fields announced to serialize_struct (length-prefixed formats write their header from it)
    announced: Option<usize>,
    /// "struct" for the documented form, anything else is reported by J1
    kind: String,
    name: String,
    fields: Vec<(String, Node)>,
}

impl<'a> Compound<'a> {
    fn finish(self) -> Result<Node, SimError> {
        call(self.st, "end", &self.name)?;
        if self.kind == "struct" {
            if let Some(n) = self.announced {
                if n != self.fields.len() {
                    // a length-prefixed format (MessagePack, CBOR, bincode's struct-as-tuple) would now hold a header
                    // that does not match its body
                    return Ok(Node::Other(format!(
                        "a struct {:?} announced with {n} fields to serialize_struct but written with {} ({})", self.name, self.fields.len(),
                        self.fields.iter().map(|(k, _)| k.as_str()).collect::<Vec<_>>().join(", "))));
                }
            }
            Ok(Node::Struct { name: self.name, fields: self.fields })
        } else {
            Ok(Node::Other(format!("a {} {:?} holding [{}]", self.kind, self.name, self.fields.iter().map(|(k, v)| format!("{k}:{}", v.show())).collect::<Vec<_>>().join(","))))
        }
    }
    fn push<T: ?Sized + Serialize>(&mut self, key: &str, value: &T) -> Result<(), SimError> {
        call(self.st, "field", key)?;
        let n = value.serialize(SimSer { st: self.st, hr: self.hr })?;
        self.fields.push((key.to_string(), n));
        Ok(())
    }
}

macro_rules! other_scalar {
    ($($m:ident : $t:ty),*) => { $(
        fn $m(self, v: $t) -> Result<Node, SimError> {
            call(self.st, "other", stringify!($m))?;
            Ok(Node::Other(format!("{} {:?}", stringify!($m), v)))
        }
    )* };
}

impl<'a> ser::Serializer for SimSer<'a> {
    type Ok = Node;
    type Error = SimError;
    type SerializeSeq = Compound<'a>;
    type SerializeTuple = Compound<'a>;
    type SerializeTupleStruct = Compound<'a>;
    type SerializeTupleVariant = Compound<'a>;
    type SerializeMap = Compound<'a>;
    type SerializeStruct = Compound<'a>;
    type SerializeStructVariant = Compound<'a>;

    fn serialize_f64(self, v: f64) -> Result<Node, SimError> {
        call(self.st, "f64", "")?;
        Ok(Node::F64(v.to_bits()))
    }
    fn serialize_f32(self, v: f32) -> Result<Node, SimError> {
        call(self.st, "f32", "")?;
        Ok(Node::F32(v.to_bits()))
    }
    other_scalar!(serialize_bool: bool, serialize_i8: i8, serialize_i16: i16, serialize_i32: i32, serialize_i64: i64,
        serialize_u8: u8, serialize_u16: u16, serialize_u32: u32, serialize_u64: u64, serialize_char: char, serialize_str: &str, serialize_bytes: &[u8]);
    fn serialize_none(self) -> Result<Node, SimError> {
        call(self.st, "other", "none")?;
        Ok(Node::Other("none".into()))
    }
    fn serialize_some<T: ?Sized + Serialize>(self, v: &T) -> Result<Node, SimError> {
        call(self.st, "other", "some")?;
        let n = v.serialize(self)?;
        Ok(Node::Other(format!("some({})", n.show())))
    }
    fn serialize_unit(self) -> Result<Node, SimError> {
        call(self.st, "other", "unit")?;
        Ok(Node::Other("unit".into()))
    }
    fn serialize_unit_struct(self, name: &'static str) -> Result<Node, SimError> {
        call(self.st, "other", "unit_struct")?;
        Ok(Node::Other(format!("unit struct {name}")))
    }
    fn serialize_unit_variant(self, name: &'static str, _i: u32, variant: &'static str) -> Result<Node, SimError> {
        call(self.st, "other", "unit_variant")?;
        Ok(Node::Other(format!("unit variant {name}::{variant}")))
    }
    fn serialize_newtype_struct<T: ?Sized + Serialize>(self, name: &'static str, v: &T) -> Result<Node, SimError> {
        call(self.st, "other", "newtype_struct")?;
        let n = v.serialize(self)?;
        Ok(Node::Other(format!("newtype struct {name}({})", n.show())))
    }
    fn serialize_newtype_variant<T: ?Sized + Serialize>(self, name: &'static str, _i: u32, variant: &'static str, v: &T) -> Result<Node, SimError> {
        call(self.st, "other", "newtype_variant")?;
        let n = v.serialize(self)?;
        Ok(Node::Other(format!("newtype variant {name}::{variant}({})", n.show())))
    }
    fn serialize_seq(self, _len: Option<usize>) -> Result<Compound<'a>, SimError> {
        call(self.st, "other", "seq")?;
        Ok(Compound { st: self.st, hr: self.hr, announced: None, kind: "sequence".into(), name: String::new(), fields: vec![] })
    }
    fn serialize_tuple(self, _len: usize) -> Result<Compound<'a>, SimError> {
        call(self.st, "other", "tuple")?;
        Ok(Compound { st: self.st, hr: self.hr, announced: None, kind: "tuple".into(), name: String::new(), fields: vec![] })
    }
    fn serialize_tuple_struct(self, name: &'static str, _len: usize) -> Result<Compound<'a>, SimError> {
        call(self.st, "other", "tuple_struct")?;
        Ok(Compound { st: self.st, hr: self.hr, announced: None, kind: "tuple struct".into(), name: name.into(), fields: vec![] })
    }
    fn serialize_tuple_variant(self, name: &'static str, _i: u32, variant: &'static str, _len: usize) -> Result<Compound<'a>, SimError> {
        call(self.st, "other", "tuple_variant")?;
        Ok(Compound { st: self.st, hr: self.hr, announced: None, kind: "tuple variant".into(), name: format!("{name}::{variant}"), fields: vec![] })
    }
    fn serialize_map(self, _len: Option<usize>) -> Result<Compound<'a>, SimError> {
        call(self.st, "other", "map")?;
        Ok(Compound { st: self.st, hr: self.hr, announced: None, kind: "map".into(), name: String::new(), fields: vec![] })
    }
    fn serialize_struct(self, name: &'static str, _len: usize) -> Result<Compound<'a>, SimError> {
        call(self.st, "struct", name)?;
        Ok(Compound { st: self.st, hr: self.hr, announced: Some(_len), kind: "struct".into(), name: name.into(), fields: vec![] })
    }
    fn serialize_struct_variant(self, name: &'static str, _i: u32, variant: &'static str, _len: usize) -> Result<Compound<'a>, SimError> {
        call(self.st, "other", "struct_variant")?;
        Ok(Compound { st: self.st, hr: self.hr, announced: None, kind: "struct variant".into(), name: format!("{name}::{variant}"), fields: vec![] })
    }
    fn is_human_readable(&self) -> bool {
        self.hr
    }
}

impl<'a> ser::SerializeStruct for Compound<'a> {
    type Ok = Node;
    type Error = SimError;
    fn serialize_field<T: ?Sized + Serialize>(&mut self, key: &'static str, value: &T) -> Result<(), SimError> {
        self.push(key, value)
    }
    fn skip_field(&mut self, key: &'static str) -> Result<(), SimError> {
        self.st.borrow_mut().history.push(SerEvent { kind: "skip_field".into(), detail: key.into(), ok: true });
        Ok(())
    }
    fn end(self) -> Result<Node, SimError> {
        self.finish()
    }
}
impl<'a> ser::SerializeStructVariant for Compound<'a> {
    type Ok = Node;
    type Error = SimError;
    fn serialize_field<T: ?Sized + Serialize>(&mut self, key: &'static str, value: &T) -> Result<(), SimError> {
        self.push(key, value)
    }
    fn end(self) -> Result<Node, SimError> {
        self.finish()
    }
}
impl<'a> ser::SerializeMap for Compound<'a> {
    type Ok = Node;
    type Error = SimError;
    fn serialize_key<T: ?Sized + Serialize>(&mut self, key: &T) -> Result<(), SimError> {
        call(self.st, "field", "map key")?;
        let k = key.serialize(SimSer { st: self.st, hr: self.hr })?;
        self.fields.push((k.show(), Node::Other("pending".into())));
        Ok(())
    }
    fn serialize_value<T: ?Sized + Serialize>(&mut self, value: &T) -> Result<(), SimError> {
        let n = value.serialize(SimSer { st: self.st, hr: self.hr })?;
        if let Some(last) = self.fields.last_mut() {
            last.1 = n;
        }
        Ok(())
    }
    fn end(self) -> Result<Node, SimError> {
        self.finish()
    }
}
macro_rules! positional {
    ($tr:ident, $m:ident) => {
        impl<'a> ser::$tr for Compound<'a> {
            type Ok = Node;
            type Error = SimError;
            fn $m<T: ?Sized + Serialize>(&mut self, value: &T) -> Result<(), SimError> {
                let i = self.fields.len();
                self.push(&i.to_string(), value)
            }
            fn end(self) -> Result<Node, SimError> {
                self.finish()
            }
        }
    };
}
positional!(SerializeSeq, serialize_element);
positional!(SerializeTuple, serialize_element);
positional!(SerializeTupleStruct, serialize_field);
positional!(SerializeTupleVariant, serialize_field);
