//! The reading of a rendered dual number that C18 promises, and nothing more:
//! the numbers in reading order (each must parse back to exactly the stored value) and the
//! symbols in reading order.  Separators, brackets, padding and box-drawing characters carry no
//! promise and are skipped - except a free-standing minus sign, which a reader applies to the
//! number that follows ("1 - 0.5ε" reads as eps = -0.5).

use std::fmt;

#[derive(Clone, PartialEq)]
pub enum Tok {
    F64(u64),
    F32(u32),
    /// one or more symbols written without anything between them ("ε", "ε1ε2", "εε")
    Sym(String),
}

impl fmt::Debug for Tok {
    fn fmt(&self, f: &mut fmt::Formatter) -> fmt::Result {
        match self {
            Tok::F64(b) => write!(f, "{:?}", f64::from_bits(*b)),
            Tok::F32(b) => write!(f, "{:?}f32", f32::from_bits(*b)),
            Tok::Sym(s) => write!(f, "<{s}>"),
        }
    }
}

/// What the tokeniser finds in a text: number literals (with the sign a reader would apply) and symbol runs.
#[derive(Clone, Debug, PartialEq)]
pub enum Seen {
    Num { literal: String, negate: bool },
    Sym(String),
}

fn is_sym_start(c: char) -> bool {
    c == 'ε' || c == 'v'
}
fn is_sym_cont(c: char) -> bool {
    c == 'ε' || c == 'v' || c.is_ascii_digit() || c == '²' || c == '³'
}

pub fn tokenize(text: &str) -> Vec<Seen> {
    tokenize_spans(text).0
}

/// the tokens, and for every number token its (start, end) position in characters
pub fn tokenize_spans(text: &str) -> (Vec<Seen>, Vec<(usize, usize)>) {
    let cs: Vec<char> = text.chars().collect();
    let mut spans = Vec::new();
    let mut out = Vec::new();
    let mut i = 0;
    let mut pending_negate = false;
    while i < cs.len() {
        let c = cs[i];
        if is_sym_start(c) {
            let mut j = i;
            while j < cs.len() && is_sym_cont(cs[j]) {
                j += 1;
            }
            let run: String = cs[i..j].iter().collect();
            // symbols with only punctuation between them ("[]ε + []ε") read as one run, like adjacent ones ("εε")
            if let Some(Seen::Sym(prev)) = out.last_mut() {
                prev.push_str(&run);
            } else {
                out.push(Seen::Sym(run));
            }
            i = j;
            pending_negate = false;
        } else if c.is_ascii_digit() || (c == '-' && i + 1 < cs.len() && cs[i + 1].is_ascii_digit()) {
            let mut j = i;
            if cs[j] == '-' {
                j += 1;
            }
            while j < cs.len() && cs[j].is_ascii_digit() {
                j += 1;
            }
            if j < cs.len() && cs[j] == '.' && j + 1 < cs.len() && cs[j + 1].is_ascii_digit() {
                j += 1;
                while j < cs.len() && cs[j].is_ascii_digit() {
                    j += 1;
                }
            }
            if j < cs.len() && (cs[j] == 'e' || cs[j] == 'E') {
                let mut k = j + 1;
                if k < cs.len() && (cs[k] == '-' || cs[k] == '+') {
                    k += 1;
                }
                if k < cs.len() && cs[k].is_ascii_digit() {
                    while k < cs.len() && cs[k].is_ascii_digit() {
                        k += 1;
                    }
                    j = k;
                }
            }
            out.push(Seen::Num { literal: cs[i..j].iter().collect(), negate: pending_negate });
            spans.push((i, j));
            pending_negate = false;
            i = j;
        } else if c == '-' {
            // a free-standing minus: applies to the next number
            pending_negate = !pending_negate;
            i += 1;
        } else {
            i += 1;
        }
    }
    (out, spans)
}

/// The one thing about layout C18 does promise implicitly: a matrix part is shown as the matrix it is.  What
/// separates the entries of a matrix part (of plain numbers, or of scalar dual numbers) into rows (a line break, a bracket, a bar or a
/// semicolon between two entries) must come after every `cols` entries and nowhere else.  A flat list (no separation
/// at all) shows a vector, not the matrix: two parts of different shape with the same entries would read the same.  `shapes`: (ordinal of the first entry among the numbers of the text, rows, columns).
pub fn shape_mismatch(text: &str, shapes: &[(usize, usize, usize, usize)]) -> Option<String> {
    if shapes.is_empty() {
        return None;
    }
    let cs: Vec<char> = text.chars().collect();
    let (_, spans) = tokenize_spans(text);
    for &(first, rows, cols, k) in shapes {
        if first + rows * cols * k > spans.len() {
            return None; // the number sequence itself is off: reported by compare()
        }
        // entry e prints the numbers first + e*k .. first + (e+1)*k; the gap before entry e runs from the end of the
        // previous entry's last number to the start of this entry's first number (the previous entry's trailing symbol
        // is inside it; symbols contain none of the row-break characters)
        let mut breaks = vec![];
        for e in 1..rows * cols {
            let gap: String = cs[spans[first + e * k - 1].1..spans[first + e * k].0].iter().collect();
            if gap.contains(|c| matches!(c, '\n' | '[' | ']' | '│' | '|' | ';')) {
                breaks.push(e);
            }
        }
        let want: Vec<usize> = (1..rows).map(|r| r * cols).collect();
        if breaks.is_empty() {
            return Some(format!(
                "a {rows} x {cols} matrix part is laid out as one flat list of {} entries: nothing in the text separates its rows, it reads as a vector (the shape of the part is dropped from the text: parts of other shapes with the same entries read the same)",
                rows * cols
            ));
        }
        if breaks != want {
            return Some(format!(
                "a {rows} x {cols} matrix part is laid out with row breaks after entries {breaks:?}; a {rows} x {cols} matrix has them after {want:?} (the entries are in the right order, the shape shown is not the part's)"
            ));
        }
    }
    None
}

/// "each [part] followed by its documented symbol": when the text encloses the entries of a vector part in brackets
/// (an opening bracket stands between the preceding item and the part's first entry), the bracket is closed before the
/// part's symbol - "[2.5, -3]ε" - so that the symbol stands behind the part.  "[2.5, -3ε]" has the same numbers and symbols
/// in the same order and reads as a list whose last entry alone carries the symbol.
/// `vparts`: (ordinal of the first number of the part, entries, numbers per entry).
pub fn bracket_mismatch(text: &str, vparts: &[(usize, usize, usize)]) -> Option<String> {
    if vparts.is_empty() {
        return None;
    }
    let cs: Vec<char> = text.chars().collect();
    let (_, spans) = tokenize_spans(text);
    for &(first, len, k) in vparts {
        if first == 0 || first + len * k > spans.len() {
            return None; // the number sequence itself is off: reported by compare()
        }
        // the opening gap: from the end of the previous number, past any symbol directly behind it, to the first entry
        let mut a = spans[first - 1].1;
        while a < spans[first].0 && is_sym_cont(cs[a]) {
            a += 1;
        }
        let opening: String = cs[a..spans[first].0].iter().collect();
        let closer = match opening.chars().rev().find(|c| matches!(c, '[' | '(' | ']' | ')')) {
            Some('[') => ']',
            Some('(') => ')',
            _ => continue, // not bracketed
        };
        // behind the last number of the part: (for entries that are dual numbers: the entry's own last symbol, written
        // directly behind the number,) then the closing bracket, then the part's symbol
        let last = first + len * k - 1;
        let end = if last + 1 < spans.len() { spans[last + 1].0 } else { cs.len() };
        let mut p = spans[last].1;
        if k > 1 {
            // the entry's own last symbol: the symbol run behind the last number of an entry, wherever the layout puts it
            // (directly behind the number or after a blank); it is the same text for every entry of the part
            let run_after = |from: usize, to: usize| -> Option<(usize, String)> {
                let a = (from..to).find(|i| is_sym_start(cs[*i]))?;
                let mut b = a;
                while b < to && is_sym_cont(cs[b]) {
                    b += 1;
                }
                Some((b, cs[a..b].iter().collect()))
            };
            let first_entry_last = first + k - 1;
            let Some((_, own)) = run_after(spans[first_entry_last].1, spans[first_entry_last + 1].0) else { continue };
            let Some((after, run)) = run_after(p, end) else { continue };
            if run != own {
                let shown: String = cs[spans[first].0.saturating_sub(1)..(after + 1).min(cs.len())].iter().collect();
                return Some(format!(
                    "a vector part of {len} entries: the last entry is followed by the symbols {run:?} where every other entry is followed by {own:?} ({shown:?}): the part's symbol is attached to the last entry, inside the list"
                ));
            }
            p = after;
        }
        let Some(sym_at) = (p..end).find(|i| is_sym_start(cs[*i])) else { continue };
        if !cs[p..sym_at].contains(&closer) {
            let shown: String = cs[spans[first].0.saturating_sub(1)..(sym_at + 2).min(cs.len())].iter().collect();
            return Some(format!(
                "a vector part of {len} entries is opened with a bracket but its symbol is written before the bracket is closed ({shown:?}): the symbol stands behind the last entry, not behind the part"
            ));
        }
    }
    None
}

/// Merge adjacent symbols of the expectation into runs, as they appear in a text.
pub fn merge_syms(toks: &[Tok]) -> Vec<Tok> {
    let mut out: Vec<Tok> = Vec::new();
    for t in toks {
        match (out.last_mut(), t) {
            (Some(Tok::Sym(prev)), Tok::Sym(s)) => prev.push_str(s),
            _ => out.push(t.clone()),
        }
    }
    out
}

/// Compare what a reader sees in `text` with what the value holds.  None = faithful.
pub fn compare(text: &str, expect: &[Tok]) -> Option<String> {
    let seen = tokenize(text);
    let want = merge_syms(expect);
    let n = seen.len().max(want.len());
    for i in 0..n {
        match (seen.get(i), want.get(i)) {
            (Some(Seen::Sym(a)), Some(Tok::Sym(b))) if a == b => {}
            (Some(Seen::Num { literal, negate }), Some(Tok::F64(bits))) => match literal.parse::<f64>() {
                Ok(v) => {
                    let v = if *negate { -v } else { v };
                    if v.to_bits() != *bits {
                        return Some(format!(
                            "item {i}: text reads {}{literal} which parses to {v:?}, stored value is {:?}",
                            if *negate { "-" } else { "" },
                            f64::from_bits(*bits)
                        ));
                    }
                }
                Err(_) => return Some(format!("item {i}: {literal:?} does not parse as f64")),
            },
            (Some(Seen::Num { literal, negate }), Some(Tok::F32(bits))) => match literal.parse::<f32>() {
                Ok(v) => {
                    let v = if *negate { -v } else { v };
                    if v.to_bits() != *bits {
                        return Some(format!(
                            "item {i}: text reads {}{literal} which parses to {v:?}f32, stored value is {:?}f32",
                            if *negate { "-" } else { "" },
                            f32::from_bits(*bits)
                        ));
                    }
                }
                Err(_) => return Some(format!("item {i}: {literal:?} does not parse as f32")),
            },
            (s, w) => {
                return Some(format!(
                    "item {i}: text has {}, value has {} (text items {}, value items {})",
                    s.map_or("nothing".to_string(), |s| format!("{s:?}")),
                    w.map_or("nothing".to_string(), |w| format!("{w:?}")),
                    seen.len(),
                    want.len()
                ))
            }
        }
    }
    None
}

#[cfg(test)]
mod tests {
    use super::*;
    #[test]
    fn brackets_and_symbols() {
        assert!(bracket_mismatch("1 + [2, 3]ε", &[(1, 2, 1)]).is_none());
        assert!(bracket_mismatch("1 + [2, 3ε]", &[(1, 2, 1)]).is_some());
        assert!(bracket_mismatch("1 + 2, 3 ε", &[(1, 2, 1)]).is_none()); // not bracketed: no verdict
        assert!(bracket_mismatch("1 + [2 + 3ε, 4 + 5ε]ε", &[(1, 2, 2)]).is_none());
        assert!(bracket_mismatch("1+[2+3 ε, 4+5 ε]ε", &[(1, 2, 2)]).is_none());
        assert!(bracket_mismatch("1 + [(2 + 3ε), (4 + 5ε)]ε", &[(1, 2, 2)]).is_none());
        assert!(bracket_mismatch("1 + [2 + 3ε, 4 + 5εε]", &[(1, 2, 2)]).is_some());
        assert!(bracket_mismatch("1 + [2 + 3ε, 4 + 5ε ε]", &[(1, 2, 2)]).is_some());
        // rows of a matrix part
        assert!(shape_mismatch("1 + [[2, 3], [4, 5]]ε", &[(1, 2, 2, 1)]).is_none());
        assert!(shape_mismatch("1 + [2, 3, 4, 5]ε", &[(1, 2, 2, 1)]).is_some());
        assert!(shape_mismatch("1 + [2, 3; 4, 5; 6, 7]ε", &[(1, 2, 3, 1)]).is_some());
    }
    #[test]
    fn tokenizer_basics() {
        let t = tokenize("1.5 + [-0.1, 2]ε1 + 3e-7ε1² - 4v3");
        assert_eq!(
            t,
            vec![
                Seen::Num { literal: "1.5".into(), negate: false },
                Seen::Num { literal: "-0.1".into(), negate: false },
                Seen::Num { literal: "2".into(), negate: false },
                Seen::Sym("ε1".into()),
                Seen::Num { literal: "3e-7".into(), negate: false },
                Seen::Sym("ε1²".into()),
                Seen::Num { literal: "4".into(), negate: true },
                Seen::Sym("v3".into()),
            ]
        );
        assert!(compare("1 + 2ε", &[Tok::F64(1f64.to_bits()), Tok::F64(2f64.to_bits()), Tok::Sym("ε".into())]).is_none());
        assert!(compare("1 - 2ε", &[Tok::F64(1f64.to_bits()), Tok::F64(2f64.to_bits()), Tok::Sym("ε".into())]).is_some());
        assert!(compare("1 - 2ε", &[Tok::F64(1f64.to_bits()), Tok::F64((-2f64).to_bits()), Tok::Sym("ε".into())]).is_none());
        assert!(compare("1 + 3 + 4εε", &[Tok::F64(1f64.to_bits()), Tok::F64(3f64.to_bits()), Tok::F64(4f64.to_bits()), Tok::Sym("ε".into()), Tok::Sym("ε".into())]).is_none());
    }
}
