//! Seeded construction of dual numbers of every type together with the reading C18 promises of
//! their rendering (numbers in reading order, symbols in reading order, absent parts omitted).
//! The expectation is built from the values handed to the public constructors - never from the
//! crate's own formatting code.

use crate::rng::Rng;
use crate::tok::Tok;
use nalgebra::allocator::Allocator;
use nalgebra::{Const, DefaultAllocator, Dim, Dyn, OMatrix, U1};
use num_dual::*;
use std::fmt::Display;

pub struct GenCtx {
    pub rng: Rng,
    /// upper bound for dynamically sized dimensions
    pub max_dim: usize,
    /// use small distinct integers only (for minimised replays)
    pub simple: bool,
    /// permille probability that an optional part is present
    pub present_permille: u32,
    counter: u32,
    /// how the entries of the part being generated are drawn (swarm style: most parts ordinary, some degenerate)
    force: Force,
    /// the next leaf is the first one of an entry (its innermost real part)
    lead: bool,
    /// presence decisions taken, in order (part of the replayable description)
    pub presence: Vec<bool>,
    /// dynamic dimensions chosen, in order
    pub dims: Vec<usize>,
    /// matrix parts whose entries print a fixed number of numbers: (ordinal of their first number in reading order,
    /// rows, columns, numbers per entry)
    pub shapes: Vec<(usize, usize, usize, usize)>,
    /// vector parts of two or more entries whose entries print a fixed count of numbers: (ordinal of the first number, entries, numbers per entry)
    pub vparts: Vec<(usize, usize, usize)>,
    /// dynamic dimensions to use, in order, instead of drawing them (wide and tall matrix parts)
    pub dims_override: Vec<usize>,
}

#[derive(Clone, Copy, PartialEq)]
enum Force {
    None,
    /// every leaf of every entry is a zero (of either sign)
    Zero,
    /// every leaf is the same value
    Same(f64),
    /// the innermost real part of every entry is zero, the other leaves are ordinary ("0 + 3ε")
    ZeroLead,
}

impl GenCtx {
    pub fn new(seed: u64, max_dim: usize, simple: bool, present_permille: u32) -> Self {
        GenCtx { rng: Rng::new(seed), max_dim, simple, present_permille, counter: 0, force: Force::None, lead: false, presence: vec![], dims: vec![], shapes: vec![], vparts: vec![], dims_override: vec![] }
    }
    fn forced(&mut self) -> Option<f64> {
        let lead = std::mem::replace(&mut self.lead, false);
        match self.force {
            Force::None => None,
            Force::Zero => Some(if self.rng.chance(300) { -0.0 } else { 0.0 }),
            Force::Same(v) => Some(v),
            Force::ZeroLead if lead => Some(if self.rng.chance(300) { -0.0 } else { 0.0 }),
            Force::ZeroLead => None,
        }
    }
    fn f64(&mut self) -> f64 {
        self.counter += 1;
        if let Some(v) = self.forced() {
            return v;
        }
        if self.simple {
            return self.counter as f64;
        }
        let r = &mut self.rng;
        let v = match r.below(12) {
            0 => r.below(2000) as f64 - 1000.0,
            1 => (r.below(2001) as f64 - 1000.0) / 8.0,
            2 => (r.below(200001) as f64 - 100000.0) / 1000.0, // decimals like -0.1, 12.345
            3 => [0.1, 0.2, 0.3, 1.0 / 3.0, 2.0 / 3.0, 1e-7, 123456.789, 1e21, 1e22, 1e23, 5e-324, 2.2250738585072014e-308, 1.7976931348623157e308, 9007199254740993.0, 0.30000000000000004, 4.35, 1e15, 1e16, 1e17][r.below(19)],
            4 => -0.0,
            5 => 0.0,
            6 => f64::from_bits((r.next() & 0x000F_FFFF_FFFF_FFFF) | ((1023 + r.below(3) as u64) << 52)), // [1,8) full mantissa
            7 | 8 => {
                // any finite double
                loop {
                    let v = f64::from_bits(r.next());
                    if v.is_finite() {
                        break v;
                    }
                }
            }
            9 => f64::from_bits(r.next() & 0x000F_FFFF_FFFF_FFFF), // subnormal
            10 => (r.below(19) as f64 - 9.0) * 10f64.powi(r.below(40) as i32 - 20),
            _ => (r.next() as i64 as f64) / 3.0,
        };
        if r.chance(300) {
            -v
        } else {
            v
        }
    }
    fn f32(&mut self) -> f32 {
        self.counter += 1;
        if let Some(v) = self.forced() {
            return v as f32;
        }
        if self.simple {
            return self.counter as f32;
        }
        let r = &mut self.rng;
        let v = match r.below(8) {
            0 => r.below(2000) as f32 - 1000.0,
            1 => (r.below(200001) as f32 - 100000.0) / 1000.0,
            2 => [0.1f32, 0.2, 0.3, 1.0 / 3.0, 1e-7, 16777217.0, 3e-8, 3.4028235e38, 1e-45, 1.1754944e-38, 0.7, 1e10][r.below(12)],
            3 => -0.0,
            4 | 5 => loop {
                let v = f32::from_bits(r.next() as u32);
                if v.is_finite() {
                    break v;
                }
            },
            6 => f32::from_bits((r.next() as u32) & 0x007F_FFFF),
            _ => f32::from_bits(((r.next() as u32) & 0x007F_FFFF) | (127 << 23)),
        };
        if r.chance(300) {
            -v
        } else {
            v
        }
    }
    fn present(&mut self) -> bool {
        let p = self.rng.chance(self.present_permille);
        self.presence.push(p);
        p
    }
    fn dim<D: Dim>(&mut self) -> D {
        match D::try_to_usize() {
            Some(n) => D::from_usize(n),
            None => {
                // bounds above 64 mean "exactly this many" (long vector parts: batch and chunk boundaries)
                let n = if !self.dims_override.is_empty() {
                    self.dims_override.remove(0)
                } else if self.max_dim > 64 {
                    self.max_dim
                } else {
                    self.rng.below(self.max_dim + 1)
                };
                self.dims.push(n);
                D::from_usize(n)
            }
        }
    }
}

/// A type the simulator can build from a seed, with the reading its rendering must have.
pub trait Gen: Sized + Display + Clone {
    /// how many numbers one value of this type always prints, if that is fixed and its text contains no brackets or
    /// line breaks of its own (floats: 1; scalar dual types over such types: parts x inner); None for vector types.
    /// The rows of a matrix part of such entries can be read off the text.
    const LEAVES: Option<usize> = None;
    fn gen(g: &mut GenCtx) -> (Self, Vec<Tok>);
}

impl Gen for f64 {
    const LEAVES: Option<usize> = Some(1);
    fn gen(g: &mut GenCtx) -> (Self, Vec<Tok>) {
        let v = g.f64();
        (v, vec![Tok::F64(v.to_bits())])
    }
}
impl Gen for f32 {
    const LEAVES: Option<usize> = Some(1);
    fn gen(g: &mut GenCtx) -> (Self, Vec<Tok>) {
        let v = g.f32();
        (v, vec![Tok::F32(v.to_bits())])
    }
}

fn sym(s: &str) -> Tok {
    Tok::Sym(s.to_string())
}

macro_rules! scalar_gen {
    ($ty:ident, [$($sym:literal),+]) => {
        impl<T: Gen + DualNum<F>, F: Display + Clone> Gen for $ty<T, F> {
            const LEAVES: Option<usize> = match T::LEAVES {
                Some(k) => Some(k * (1 + [$($sym),+].len())),
                None => None,
            };
            fn gen(g: &mut GenCtx) -> (Self, Vec<Tok>) {
                let (re, mut toks) = T::gen(g);
                let mut parts = Vec::new();
                $(
                    let (p, t) = T::gen(g);
                    toks.extend(t);
                    toks.push(sym($sym));
                    parts.push(p);
                )+
                let mut it = parts.into_iter();
                (scalar_gen!(@new $ty, re, it, [$($sym),+]), toks)
            }
        }
    };
    (@new $ty:ident, $re:ident, $it:ident, [$($sym:literal),+]) => {
        $ty::new($re $(, { let _ = $sym; $it.next().unwrap() })+)
    };
}

scalar_gen!(Dual, ["ε"]);
scalar_gen!(Dual2, ["ε1", "ε1²"]);
scalar_gen!(Dual3, ["v1", "v2", "v3"]);
scalar_gen!(HyperDual, ["ε1", "ε2", "ε1ε2"]);
scalar_gen!(HyperHyperDual, ["ε1", "ε2", "ε3", "ε1ε2", "ε1ε3", "ε2ε3", "ε1ε2ε3"]);

/// An optional matrix-valued part: absent -> no text at all; present -> its entries in reading
/// order (a vector front to back, a matrix row by row) followed by the symbol.
fn gen_part<T: Gen + DualNum<F>, F, R: Dim, C: Dim>(g: &mut GenCtx, r: R, c: C, symbol: &str) -> (Derivative<T, F, R, C>, Vec<Tok>)
where
    DefaultAllocator: Allocator<R, C>,
{
    if !g.present() {
        return (Derivative::none(), vec![]);
    }
    let (nr, nc) = (r.value(), c.value());
    if let (Some(k), true) = (T::LEAVES, nr >= 2 && nc >= 2) {
        g.shapes.push((g.counter as usize, nr, nc, k));
    }
    if let (Some(k), true) = (T::LEAVES, (nr == 1 || nc == 1) && nr * nc >= 2) {
        g.vparts.push((g.counter as usize, nr * nc, k));
    }
    // most parts ordinary; some all-zero, all-equal, or with every entry's innermost real part zero
    g.force = match g.rng.below(100) {
        0..=7 => Force::Zero,
        8..=13 => {
            let v = [1.0, -1.0, 2.5, 1e30, 0.1][g.rng.below(5)]; // finite as f32 too
            Force::Same(v)
        }
        14..=21 => Force::ZeroLead,
        _ => Force::None,
    };
    // generate in reading order: row by row
    let mut cells: Vec<Vec<Option<T>>> = Vec::new();
    let mut toks = Vec::new();
    for _i in 0..nr {
        let mut row = Vec::new();
        for _j in 0..nc {
            g.lead = true;
            let (v, t) = T::gen(g);
            toks.extend(t);
            row.push(Some(v));
        }
        cells.push(row);
    }
    g.force = Force::None;
    g.lead = false;
    let m = OMatrix::<T, R, C>::from_fn_generic(r, c, |i, j| cells[i][j].take().unwrap());
    toks.push(sym(symbol));
    (Derivative::some(m), toks)
}

impl<T: Gen + DualNum<F>, F: Clone, D: Dim> Gen for DualVec<T, F, D>
where
    DefaultAllocator: Allocator<D>,
{
    fn gen(g: &mut GenCtx) -> (Self, Vec<Tok>) {
        let d: D = g.dim();
        let (re, mut toks) = T::gen(g);
        let (eps, t) = gen_part::<T, F, D, U1>(g, d, Const::<1>, "ε");
        toks.extend(t);
        (DualVec::new(re, eps), toks)
    }
}

impl<T: Gen + DualNum<F>, F: Display + Clone, D: Dim> Gen for Dual2Vec<T, F, D>
where
    DefaultAllocator: Allocator<U1, D> + Allocator<D, D>,
{
    fn gen(g: &mut GenCtx) -> (Self, Vec<Tok>) {
        let d: D = g.dim();
        let (re, mut toks) = T::gen(g);
        let (v1, t1) = gen_part::<T, F, U1, D>(g, Const::<1>, d, "ε1");
        let (v2, t2) = gen_part::<T, F, D, D>(g, d, d, "ε1²");
        toks.extend(t1);
        toks.extend(t2);
        (Dual2Vec::new(re, v1, v2), toks)
    }
}

impl<T: Gen + DualNum<F>, F: Display + Clone, M: Dim, N: Dim> Gen for HyperDualVec<T, F, M, N>
where
    DefaultAllocator: Allocator<M> + Allocator<M, N> + Allocator<U1, N>,
{
    fn gen(g: &mut GenCtx) -> (Self, Vec<Tok>) {
        let m: M = g.dim();
        let n: N = g.dim();
        let (re, mut toks) = T::gen(g);
        let (e1, t1) = gen_part::<T, F, M, U1>(g, m, Const::<1>, "ε1");
        let (e2, t2) = gen_part::<T, F, U1, N>(g, Const::<1>, n, "ε2");
        let (e12, t12) = gen_part::<T, F, M, N>(g, m, n, "ε1ε2");
        toks.extend(t1);
        toks.extend(t2);
        toks.extend(t12);
        (HyperDualVec::new(re, e1, e2, e12), toks)
    }
}

pub struct Subject {
    pub type_name: &'static str,
    pub value: Box<dyn Display + Send>,
    pub expect: Vec<Tok>,
    pub presence: Vec<bool>,
    pub dims: Vec<usize>,
    pub shapes: Vec<(usize, usize, usize, usize)>,
    /// vector parts of two or more entries whose entries print a fixed count of numbers: (ordinal of the first number, entries, numbers per entry)
    pub vparts: Vec<(usize, usize, usize)>,
}

fn make<T: Gen + Send + 'static>(name: &'static str, g: &mut GenCtx) -> Subject {
    let (v, expect) = T::gen(g);
    Subject { type_name: name, value: Box::new(v), expect, presence: g.presence.clone(), dims: g.dims.clone(), shapes: g.shapes.clone(), vparts: g.vparts.clone() }
}

type Maker = fn(&'static str, &mut GenCtx) -> Subject;

macro_rules! types {
    ($($name:literal => $ty:ty),+ $(,)?) => {
        pub const TYPES: &[(&str, Maker)] = &[ $( ($name, make::<$ty> as Maker) ),+ ];
    };
}

types! {
    "Dual64" => Dual64,
    "Dual32" => Dual32,
    "Dual2_64" => Dual2_64,
    "Dual2_32" => Dual2_32,
    "Dual3_64" => Dual3_64,
    "Dual3_32" => Dual3_32,
    "HyperDual64" => HyperDual64,
    "HyperDual32" => HyperDual32,
    "HyperHyperDual64" => HyperHyperDual64,
    "DualSVec64<1>" => DualSVec64<1>,
    "DualSVec64<2>" => DualSVec64<2>,
    "DualSVec64<3>" => DualSVec64<3>,
    "DualSVec64<5>" => DualSVec64<5>,
    "DualSVec32<3>" => DualSVec32<3>,
    "DualDVec64" => DualDVec64,
    "DualDVec32" => DualDVec32,
    "Dual2SVec64<1>" => Dual2SVec64<1>,
    "Dual2SVec64<2>" => Dual2SVec64<2>,
    "Dual2SVec64<3>" => Dual2SVec64<3>,
    "Dual2SVec32<2>" => Dual2SVec32<2>,
    "Dual2DVec64" => Dual2DVec64,
    "Dual2DVec32" => Dual2DVec32,
    "HyperDualSVec64<1,1>" => HyperDualSVec64<1, 1>,
    "HyperDualSVec64<2,3>" => HyperDualSVec64<2, 3>,
    "HyperDualSVec64<3,1>" => HyperDualSVec64<3, 1>,
    "HyperDualSVec64<1,2>" => HyperDualSVec64<1, 2>,
    "HyperDualSVec32<2,2>" => HyperDualSVec32<2, 2>,
    "HyperDualDVec64" => HyperDualDVec64,
    "HyperDualVec64<Dyn,Const<2>>" => HyperDualVec64<Dyn, Const<2>>,
    "Dual<Dual64>" => Dual<Dual64, f64>,
    "Dual2<Dual64>" => Dual2<Dual64, f64>,
    "Dual3<Dual64>" => Dual3<Dual64, f64>,
    "HyperDual<Dual64>" => HyperDual<Dual64, f64>,
    "HyperHyperDual<Dual64>" => HyperHyperDual<Dual64, f64>,
    "Dual<Dual2_64>" => Dual<Dual2_64, f64>,
    "Dual<Dual<Dual64>>" => Dual<Dual<Dual64, f64>, f64>,
    "Dual<HyperDual32>" => Dual<HyperDual32, f32>,
    "DualVec<Dual64,Dyn>" => DualVec<Dual64, f64, Dyn>,
    "DualVec<Dual64,Const<2>>" => DualVec<Dual64, f64, Const<2>>,
    "Dual2Vec<Dual64,Dyn>" => Dual2Vec<Dual64, f64, Dyn>,
    "HyperDualVec<Dual64,Const<2>,Const<2>>" => HyperDualVec<Dual64, f64, Const<2>, Const<2>>,
    "Dual<DualDVec64>" => Dual<DualDVec64, f64>,
    "Dual2<DualSVec64<2>>" => Dual2<DualSVec64<2>, f64>,
    "DualVec<DualDVec64,Dyn>" => DualVec<DualDVec64, f64, Dyn>,
    // session 2: larger static dimensions, the remaining f32 scalar type, more mixed static/dynamic shapes,
    // every scalar type as the element of a vector type, vector types inside scalar types inside vector types
    "HyperHyperDual32" => HyperHyperDual32,
    "DualSVec64<6>" => DualSVec64<6>,
    "DualSVec64<8>" => DualSVec64<8>,
    "DualSVec64<10>" => DualSVec64<10>,
    "DualSVec32<7>" => DualSVec32<7>,
    "Dual2SVec64<4>" => Dual2SVec64<4>,
    "Dual2SVec64<6>" => Dual2SVec64<6>,
    "Dual2SVec32<5>" => Dual2SVec32<5>,
    "HyperDualSVec64<4,5>" => HyperDualSVec64<4, 5>,
    "HyperDualSVec64<6,1>" => HyperDualSVec64<6, 1>,
    "HyperDualSVec64<1,7>" => HyperDualSVec64<1, 7>,
    "HyperDualSVec64<5,5>" => HyperDualSVec64<5, 5>,
    "HyperDualSVec32<3,4>" => HyperDualSVec32<3, 4>,
    "HyperDualVec64<Const<3>,Dyn>" => HyperDualVec64<Const<3>, Dyn>,
    "HyperDualDVec32" => HyperDualDVec32,
    "HyperHyperDual<Dual2_32>" => HyperHyperDual<Dual2_32, f32>,
    "Dual3<HyperDual64>" => Dual3<HyperDual64, f64>,
    "DualVec<Dual32,Dyn>" => DualVec<Dual32, f32, Dyn>,
    "DualVec<Dual3_64,Const<2>>" => DualVec<Dual3_64, f64, Const<2>>,
    "DualVec<HyperHyperDual64,Dyn>" => DualVec<HyperHyperDual64, f64, Dyn>,
    "Dual2Vec<HyperDual64,Const<2>>" => Dual2Vec<HyperDual64, f64, Const<2>>,
    "Dual2Vec<Dual2_32,Dyn>" => Dual2Vec<Dual2_32, f32, Dyn>,
    "HyperDualVec<Dual2_64,Dyn,Dyn>" => HyperDualVec<Dual2_64, f64, Dyn, Dyn>,
    "HyperDualVec<Dual3_64,Const<1>,Const<3>>" => HyperDualVec<Dual3_64, f64, Const<1>, Const<3>>,
    "Dual3<DualSVec64<2>>" => Dual3<DualSVec64<2>, f64>,
    "HyperDual<DualDVec64>" => HyperDual<DualDVec64, f64>,
    "HyperHyperDual<HyperDualDVec64>" => HyperHyperDual<HyperDualDVec64, f64>,
    "Dual2Vec<Dual2DVec64,Dyn>" => Dual2Vec<Dual2DVec64, f64, Dyn>,
    "HyperDualVec<DualDVec64,Dyn,Const<2>>" => HyperDualVec<DualDVec64, f64, Dyn, Const<2>>,
    "Dual<DualVec<DualDVec64,Dyn>>" => Dual<DualVec<DualDVec64, f64, Dyn>, f64>,
    "DualVec<Dual<DualDVec64>,Dyn>" => DualVec<Dual<DualDVec64, f64>, f64, Dyn>,
    "DualVec<Dual2<DualSVec64<2>>,Const<3>>" => DualVec<Dual2<DualSVec64<2>, f64>, f64, Const<3>>,
}
