//! The simulated environment of `Display::fmt`: the sink behind the `Formatter`.
//! Two kinds, both owned by the simulator, both recording the full history of calls:
//!  * `FmtSink`  - a `fmt::Write` whose `write_str` is all-or-nothing (like `String`, `heapless::String`,
//!                 `arrayvec::ArrayString`), with rejections decided by a fault plan;
//!  * `IoSink`   - an `io::Write` reached through std's `write!(w, "{}", x)` adapter, with short writes,
//!                 `Interrupted`, and hard errors decided by a fault plan.

use crate::rng::Rng;
use serde::{Deserialize, Serialize};
use std::{fmt, io};

#[derive(Clone, Debug, Serialize, Deserialize, PartialEq)]
pub enum FmtPlan {
    /// every write accepted
    None,
    /// reject exactly the k-th write_str call (0-based), accept all others: a momentarily full buffer,
    /// a stream that would block once
    FailOnce(usize),
    /// reject the k-th and every later call: closed pipe, exhausted quota
    FailFrom(usize),
    /// fixed-capacity buffer: a write is accepted iff it still fits as a whole (later, shorter writes may fit again)
    Capacity(usize),
    /// reject exactly these calls
    FailSet(Vec<usize>),
    /// each call rejected with probability permille/1000, decided by a PRNG seeded with `seed`
    Random { permille: u32, seed: u64 },
    /// the sink panics in its k-th write_str (an index out of range in a fixed array, an `expect` on a full queue); the
    /// caller catches the unwind and goes on using the thread
    PanicAt(usize),
}

/// payload of a panic raised by a simulated sink
pub struct SinkPanic;

#[derive(Clone, Debug, Serialize, Deserialize, PartialEq)]
pub enum IoAct {
    /// accept at most this many bytes of the buffer (>= 1)
    Short(usize),
    /// return ErrorKind::Interrupted (write_all retries)
    Interrupted,
    /// hard error
    Error,
    /// the stream would block (non-blocking socket / pipe): ErrorKind::WouldBlock, a hard error for write_all
    WouldBlock,
    /// the stream accepts nothing: Ok(0) - write_all turns it into ErrorKind::WriteZero
    Zero,
    /// the writer panics; the caller catches the unwind
    Panic,
}

#[derive(Clone, Debug, Serialize, Deserialize, PartialEq)]
pub enum IoPlan {
    None,
    /// explicit actions at given write() call indices
    At(Vec<(usize, IoAct)>),
    /// every call: short write of 1..=max bytes
    AllShort(usize),
    Random { short: u32, eintr: u32, error: u32, seed: u64 },
}

#[derive(Clone, Debug, Serialize, Deserialize, PartialEq)]
pub enum SinkSpec {
    Fmt(FmtPlan),
    Io(IoPlan),
}

#[derive(Clone, Debug, Serialize, PartialEq)]
pub struct Event {
    /// bytes offered
    pub len: usize,
    /// bytes accepted (0 with `ok == false` means rejected)
    pub taken: usize,
    pub ok: bool,
    pub kind: &'static str,
}

pub struct FmtSink {
    pub plan: FmtPlan,
    pub text: String,
    pub calls: usize,
    pub history: Vec<Event>,
    rng: Rng,
}

impl FmtSink {
    pub fn new(plan: FmtPlan) -> Self {
        let seed = if let FmtPlan::Random { seed, .. } = &plan { *seed } else { 0 };
        FmtSink { plan, text: String::new(), calls: 0, history: vec![], rng: Rng::new(seed) }
    }
    pub fn rejected_calls(&self) -> Vec<usize> {
        self.history.iter().enumerate().filter(|(_, e)| !e.ok).map(|(i, _)| i).collect()
    }
}

impl fmt::Write for FmtSink {
    fn write_str(&mut self, s: &str) -> fmt::Result {
        let k = self.calls;
        self.calls += 1;
        let reject = match &self.plan {
            FmtPlan::None => false,
            FmtPlan::FailOnce(f) => k == *f,
            FmtPlan::FailFrom(f) => k >= *f,
            FmtPlan::Capacity(c) => self.text.len() + s.len() > *c,
            FmtPlan::FailSet(v) => v.contains(&k),
            FmtPlan::Random { permille, .. } => self.rng.chance(*permille),
            FmtPlan::PanicAt(f) => {
                if k == *f {
                    self.history.push(Event { len: s.len(), taken: 0, ok: false, kind: "panic" });
                    std::panic::panic_any(SinkPanic);
                }
                false
            }
        };
        if reject {
            self.history.push(Event { len: s.len(), taken: 0, ok: false, kind: "reject" });
            Err(fmt::Error)
        } else {
            self.text.push_str(s);
            self.history.push(Event { len: s.len(), taken: s.len(), ok: true, kind: "accept" });
            Ok(())
        }
    }
}

pub struct IoSink {
    pub plan: IoPlan,
    pub bytes: Vec<u8>,
    pub calls: usize,
    pub history: Vec<Event>,
    rng: Rng,
}

impl IoSink {
    pub fn new(plan: IoPlan) -> Self {
        let seed = if let IoPlan::Random { seed, .. } = &plan { *seed } else { 0 };
        IoSink { plan, bytes: vec![], calls: 0, history: vec![], rng: Rng::new(seed) }
    }
    /// the explicit actions that actually fired, for minimisation
    pub fn fired(&self) -> Vec<(usize, IoAct)> {
        self.history
            .iter()
            .enumerate()
            .filter_map(|(i, e)| match e.kind {
                "short" => Some((i, IoAct::Short(e.taken))),
                "eintr" => Some((i, IoAct::Interrupted)),
                "error" => Some((i, IoAct::Error)),
                "wouldblock" => Some((i, IoAct::WouldBlock)),
                "zero" => Some((i, IoAct::Zero)),
                "panic" => Some((i, IoAct::Panic)),
                _ => None,
            })
            .collect()
    }
}

impl io::Write for IoSink {
    fn write(&mut self, buf: &[u8]) -> io::Result<usize> {
        let k = self.calls;
        self.calls += 1;
        if buf.is_empty() {
            self.history.push(Event { len: 0, taken: 0, ok: true, kind: "accept" });
            return Ok(0);
        }
        let act: Option<IoAct> = match &self.plan {
            IoPlan::None => None,
            IoPlan::At(v) => v.iter().find(|(i, _)| *i == k).map(|(_, a)| a.clone()),
            IoPlan::AllShort(max) => Some(IoAct::Short(1 + self.rng.below((*max).max(1)))),
            IoPlan::Random { short, eintr, error, .. } => {
                let r = (self.rng.next() % 1000) as u32;
                if r < *short {
                    Some(IoAct::Short(1 + self.rng.below(buf.len())))
                } else if r < short + eintr {
                    Some(IoAct::Interrupted)
                } else if r < short + eintr + error {
                    Some(IoAct::Error)
                } else {
                    None
                }
            }
        };
        match act {
            None => {
                self.bytes.extend_from_slice(buf);
                self.history.push(Event { len: buf.len(), taken: buf.len(), ok: true, kind: "accept" });
                Ok(buf.len())
            }
            Some(IoAct::Short(n)) => {
                let n = n.clamp(1, buf.len());
                self.bytes.extend_from_slice(&buf[..n]);
                let kind = if n < buf.len() { "short" } else { "accept" };
                self.history.push(Event { len: buf.len(), taken: n, ok: true, kind });
                Ok(n)
            }
            Some(IoAct::Interrupted) => {
                self.history.push(Event { len: buf.len(), taken: 0, ok: false, kind: "eintr" });
                Err(io::Error::from(io::ErrorKind::Interrupted))
            }
            Some(IoAct::Error) => {
                self.history.push(Event { len: buf.len(), taken: 0, ok: false, kind: "error" });
                Err(io::Error::new(io::ErrorKind::Other, "injected"))
            }
            Some(IoAct::WouldBlock) => {
                self.history.push(Event { len: buf.len(), taken: 0, ok: false, kind: "wouldblock" });
                Err(io::Error::from(io::ErrorKind::WouldBlock))
            }
            Some(IoAct::Zero) => {
                self.history.push(Event { len: buf.len(), taken: 0, ok: false, kind: "zero" });
                Ok(0)
            }
            Some(IoAct::Panic) => {
                self.history.push(Event { len: buf.len(), taken: 0, ok: false, kind: "panic" });
                std::panic::panic_any(SinkPanic);
            }
        }
    }
    fn flush(&mut self) -> io::Result<()> {
        Ok(())
    }
}
