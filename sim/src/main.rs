//! Deterministic simulation of `Display` rendering of num-dual's types into fault-injecting sinks (C18).
//!
//! Real code under test: every `impl fmt::Display` of num-dual, `Derivative::fmt`, nalgebra's matrix
//! `Display`, core's float formatting and `fmt::write`, std's `io::Write::write_fmt` adapter.
//! Simulated: the sink (the only environment these impls touch) - see sink.rs.
//! One u64 (VERIF_SEED) decides every value, type, presence pattern, dimension and fault plan.
//!
//! Invariants, each a consequence of C18 ("lists the real part followed by every present part ... each
//! followed by its symbol ... omits absent parts ... every printed number parses back to exactly the stored
//! value, so no part is dropped, duplicated, swapped or altered in the text"):
//!   I1 layout      the fault-free text, read as numbers and symbols in reading order, is exactly the stored
//!                  values and the documented symbols (tok.rs / gen.rs);
//!   I2 complete    whenever rendering into a faulty sink reports success, the text the sink holds is the
//!                  complete fault-free text (a reported success never hides a dropped piece);
//!   I3 no-spurious whenever the sink accepted every write, rendering reports success (and does not panic).
//! Nothing is demanded of the sink contents when rendering reports an error.

mod gen;
mod rng;
mod sink;
mod tok;

use gen::{GenCtx, Subject, TYPES};
use rng::{mix, Rng};
use serde::{Deserialize, Serialize};
use sink::{Event, FmtPlan, FmtSink, IoAct, IoPlan, IoSink, SinkPanic, SinkSpec};
use std::collections::{BTreeMap, HashSet};
use std::fmt::Write as _;
use std::io::Write as _;
use std::panic::{catch_unwind, AssertUnwindSafe};
use std::time::Instant;

#[derive(Clone, Debug, Serialize, Deserialize, PartialEq)]
pub struct Case {
    pub type_name: String,
    pub value_seed: u64,
    pub max_dim: usize,
    pub simple: bool,
    pub present_permille: u32,
    pub sink: SinkSpec,
    /// dynamic dimensions to use in order instead of drawing them (wide and tall matrix parts)
    #[serde(default)]
    pub dims_override: Vec<usize>,
}

#[derive(Clone, Debug, Serialize, Deserialize, PartialEq, Eq, PartialOrd, Ord)]
pub enum Class {
    Layout,
    OkButIncomplete,
    SpuriousError,
    Panic,
}

#[derive(Clone, Debug, Serialize)]
pub struct Outcome {
    pub reference_text: String,
    pub sink_text: String,
    pub returned_ok: bool,
    pub history: Vec<Event>,
    pub presence: Vec<bool>,
    pub dims: Vec<usize>,
    pub violation: Option<(Class, String)>,
    pub faults_fired: BTreeMap<String, u64>,
}

fn build(case: &Case) -> Option<Subject> {
    let maker = TYPES.iter().find(|(n, _)| *n == case.type_name)?;
    let mut g = GenCtx::new(case.value_seed, case.max_dim, case.simple, case.present_permille);
    g.dims_override = case.dims_override.clone();
    Some((maker.1)(maker.0, &mut g))
}

fn panic_msg(p: Box<dyn std::any::Any + Send>) -> String {
    if let Some(s) = p.downcast_ref::<&str>() {
        s.to_string()
    } else if let Some(s) = p.downcast_ref::<String>() {
        s.clone()
    } else {
        "non-string panic".to_string()
    }
}

/// Execute one case against the real code.  A pure function of `case`.
pub fn run_case(case: &Case) -> Outcome {
    let subject = match catch_unwind(AssertUnwindSafe(|| build(case))) {
        Ok(Some(s)) => s,
        Ok(None) => panic!("harness error: unknown type {}", case.type_name),
        Err(p) => {
            return Outcome {
                reference_text: String::new(), sink_text: String::new(), returned_ok: false, history: vec![], presence: vec![], dims: vec![],
                violation: Some((Class::Panic, format!("constructing the value panicked: {}", panic_msg(p)))), faults_fired: BTreeMap::new(),
            }
        }
    };
    let mut out = Outcome {
        reference_text: String::new(), sink_text: String::new(), returned_ok: false, history: vec![],
        presence: subject.presence.clone(), dims: subject.dims.clone(), violation: None, faults_fired: BTreeMap::new(),
    };
    // fault-free rendering, as the property observes it
    let t0 = match catch_unwind(AssertUnwindSafe(|| subject.value.to_string())) {
        Ok(t) => t,
        Err(p) => {
            out.violation = Some((Class::Panic, format!("to_string() panicked: {}", panic_msg(p))));
            return out;
        }
    };
    out.reference_text = t0.clone();
    if let Some(msg) = tok::compare(&t0, &subject.expect).or_else(|| tok::shape_mismatch(&t0, &subject.shapes)).or_else(|| tok::bracket_mismatch(&t0, &subject.vparts)) {
        out.violation = Some((Class::Layout, msg));
        return out;
    }
    match &case.sink {
        SinkSpec::Fmt(plan) => {
            let mut s = FmtSink::new(plan.clone());
            let res = catch_unwind(AssertUnwindSafe(|| write!(s, "{}", subject.value)));
            let rejected = s.rejected_calls();
            if !rejected.is_empty() {
                *out.faults_fired.entry(format!("fmt_reject/{}", plan_kind_fmt(plan))).or_default() += rejected.len() as u64;
            }
            out.sink_text = s.text.clone();
            out.history = s.history;
            match res {
                Err(p) if p.is::<SinkPanic>() => {
                    // the sink's own panic unwound through the rendering: nothing to judge here; what it must not do is
                    // leave something behind for the next rendering on this thread (the history check)
                    *out.faults_fired.entry("fmt_sink_panic".into()).or_default() += 1;
                }
                Err(p) => out.violation = Some((Class::Panic, format!("fmt panicked: {}", panic_msg(p)))),
                Ok(r) => {
                    out.returned_ok = r.is_ok();
                    if r.is_ok() && s.text != t0 {
                        out.violation = Some((Class::OkButIncomplete, format!(
                            "Display reported success although write_str call(s) {rejected:?} were rejected; the sink holds {:?}, the complete rendering is {:?}", s.text, t0)));
                    } else if r.is_err() && rejected.is_empty() {
                        out.violation = Some((Class::SpuriousError, "Display reported an error although the sink accepted every write".to_string()));
                    }
                }
            }
        }
        SinkSpec::Io(plan) => {
            let mut s = IoSink::new(plan.clone());
            let res = catch_unwind(AssertUnwindSafe(|| write!(s, "{}", subject.value)));
            for e in &s.history {
                if e.kind != "accept" {
                    *out.faults_fired.entry(format!("io_{}", e.kind)).or_default() += 1;
                }
            }
            let hard = s.history.iter().any(|e| matches!(e.kind, "error" | "wouldblock" | "zero"));
            out.sink_text = String::from_utf8_lossy(&s.bytes).to_string();
            out.history = s.history;
            match res {
                Err(p) if p.is::<SinkPanic>() => {}
                Err(p) => {
                    let m = panic_msg(p);
                    let class = if m.contains("formatting trait implementation returned an error") && !hard { Class::SpuriousError } else { Class::Panic };
                    out.violation = Some((class, format!("write!(io, ..) panicked: {m}")));
                }
                Ok(r) => {
                    out.returned_ok = r.is_ok();
                    if r.is_ok() && s.bytes != t0.as_bytes() {
                        out.violation = Some((Class::OkButIncomplete, format!(
                            "write!(io, ..) reported success (hard error injected: {hard}); the stream holds {:?}, the complete rendering is {:?}", out.sink_text, t0)));
                    } else if r.is_err() && !hard {
                        out.violation = Some((Class::SpuriousError, format!("write!(io, ..) failed with {:?} although no hard error was injected", r.err())));
                    }
                }
            }
        }
    }
    out
}

/// longest rendering (in sink calls) whose single-fault positions are swept exhaustively
const SWEEP_CAP: usize = 320;

fn plan_kind_fmt(p: &FmtPlan) -> &'static str {
    match p {
        FmtPlan::None => "none",
        FmtPlan::FailOnce(_) => "once",
        FmtPlan::FailFrom(_) => "from",
        FmtPlan::Capacity(_) => "capacity",
        FmtPlan::FailSet(_) => "set",
        FmtPlan::Random { .. } => "random",
        FmtPlan::PanicAt(_) => "panic",
    }
}

/// All cases explored for the value with index `i` of a batch: fault-free, every single fault position, and
/// seeded multi-fault plans.  Deterministic in (seed, i).
fn cases_for_value(seed: u64, i: u64, thorough: bool) -> Vec<Case> {
    let mut r = Rng::new(mix(seed, i));
    let (name, _) = TYPES[r.below(TYPES.len())];
    let base = Case {
        type_name: name.to_string(),
        value_seed: r.next(),
        max_dim: [0, 1, 2, 2, 3, 3, 4, 6, 8, 12][r.below(10)],
        simple: r.chance(50),
        present_permille: [0, 300, 500, 500, 800, 1000][r.below(6)],
        sink: SinkSpec::Fmt(FmtPlan::None),
        dims_override: vec![],
    };
    // long vector parts, on the types where that is cheap (a vector part, no matrix part): lengths at and just above
    // powers of two, where batched or chunked rendering would change behaviour
    let base = if matches!(name, "DualDVec64" | "DualDVec32" | "DualVec<Dual64,Dyn>" | "DualVec<Dual32,Dyn>") && r.chance(200) {
        Case { max_dim: [65, 129, 257, 513, 1024, 1025, 1031, 2049, 4097][r.below(9)], ..base }
    } else {
        base
    };
    // and larger matrix parts on the two plain matrix-carrying dynamic types (65 x 65, 97 x 97; small integers as entries)
    let base = if matches!(name, "Dual2DVec64" | "HyperDualDVec64") && r.chance(120) { Case { max_dim: [65, 65, 97][r.below(3)], simple: true, ..base } } else { base };
    // wide and tall matrix parts: many columns and few rows, and the other way round (small integers as entries; the
    // mixed part of HyperDualDVec64 is rows x columns = first x second dimension)
    let base = if name == "HyperDualDVec64" && r.chance(450) {
        let (a, b) = [(2, 200), (200, 2), (3, 300), (2, 1025), (1025, 3), (5, 129)][r.below(6)];
        Case { dims_override: vec![a, b], simple: true, present_permille: 1000, ..base }
    } else {
        base
    };
    let mut cases = vec![base.clone()];
    let with = |s: SinkSpec| Case { sink: s, ..base.clone() };
    // learn the shape of the fault-free history (number of sink calls) to place faults inside the operation
    let probe = run_case(&base);
    if probe.violation.is_some() {
        return cases; // the fault-free case already fails; it will be reported from the main loop
    }
    let n = probe.history.len();
    let len = probe.reference_text.len();
    let io_probe = run_case(&with(SinkSpec::Io(IoPlan::None)));
    cases.push(with(SinkSpec::Io(IoPlan::None)));
    let m = io_probe.history.len();
    // every single-fault position: exhaustive for renderings of at most SWEEP_CAP sink calls; for longer ones
    // (large dynamic dimensions of nested vector types) the first and last 16 calls and a seeded stride in between
    let positions = |n: usize, r: &mut Rng| -> Vec<usize> {
        if n <= SWEEP_CAP {
            return (0..n).collect();
        }
        let stride = n / (SWEEP_CAP - 32) + 1;
        let off = r.below(stride);
        let mut v: Vec<usize> = (0..16).chain((16 + off..n - 16).step_by(stride)).chain(n - 16..n).collect();
        v.dedup();
        v
    };
    for k in positions(n, &mut r) {
        cases.push(with(SinkSpec::Fmt(FmtPlan::FailOnce(k))));
        cases.push(with(SinkSpec::Fmt(FmtPlan::FailFrom(k))));
        if (k + i as usize) % 3 == 0 {
            cases.push(with(SinkSpec::Fmt(FmtPlan::PanicAt(k))));
        }
    }
    for k in positions(m, &mut r) {
        if (k + i as usize) % 5 == 0 {
            cases.push(with(SinkSpec::Io(IoPlan::At(vec![(k, IoAct::Panic)]))));
        }
        cases.push(with(SinkSpec::Io(IoPlan::At(vec![(k, IoAct::Error)]))));
        cases.push(with(SinkSpec::Io(IoPlan::At(vec![(k, IoAct::Interrupted)]))));
        cases.push(with(SinkSpec::Io(IoPlan::At(vec![(k, IoAct::Short(1))]))));
        if (k + i as usize) % 2 == 0 {
            cases.push(with(SinkSpec::Io(IoPlan::At(vec![(k, IoAct::WouldBlock)]))));
        } else {
            cases.push(with(SinkSpec::Io(IoPlan::At(vec![(k, IoAct::Zero)]))));
        }
    }
    // thorough: every pair of rejected calls, for renderings short enough (exhaustive double-fault sweep)
    if thorough && n <= 40 {
        for i in 0..n {
            for j in (i + 1)..n {
                cases.push(with(SinkSpec::Fmt(FmtPlan::FailSet(vec![i, j]))));
            }
        }
    }
    // seeded multi-fault plans
    let extra = if thorough { 12 } else { 4 };
    for _ in 0..extra {
        cases.push(with(SinkSpec::Fmt(FmtPlan::Capacity(r.below(len + 2)))));
        cases.push(with(SinkSpec::Fmt(FmtPlan::Random { permille: [30, 100, 300, 600][r.below(4)], seed: r.next() })));
        if n >= 2 {
            let mut set: Vec<usize> = (0..1 + r.below(3)).map(|_| r.below(n)).collect();
            set.sort();
            set.dedup();
            cases.push(with(SinkSpec::Fmt(FmtPlan::FailSet(set))));
        }
        cases.push(with(SinkSpec::Io(IoPlan::Random { short: [0, 200, 500][r.below(3)], eintr: [0, 100, 300][r.below(3)], error: [0, 20, 100][r.below(3)], seed: r.next() })));
    }
    cases.push(with(SinkSpec::Io(IoPlan::AllShort(1))));
    cases.push(with(SinkSpec::Io(IoPlan::AllShort(3))));
    cases
}

fn history_hash(case: &Case, o: &Outcome) -> u64 {
    let mut h = 0xcbf29ce484222325u64;
    let mut feed = |x: u64| {
        h ^= x;
        h = h.wrapping_mul(0x100000001b3);
    };
    for b in case.type_name.bytes() {
        feed(b as u64);
    }
    feed(matches!(case.sink, SinkSpec::Io(_)) as u64 + 17);
    for p in &o.presence {
        feed(*p as u64 + 3);
    }
    for d in &o.dims {
        feed(*d as u64 + 101);
    }
    for e in &o.history {
        feed(e.len as u64);
        feed(e.taken as u64 ^ ((e.ok as u64) << 40));
    }
    feed(o.returned_ok as u64);
    h
}

#[derive(Default)]
struct Stats {
    values: u64,
    cases: u64,
    faulted_cases: u64,
    err_returns: u64,
    sink_calls: u64,
    fired: BTreeMap<String, u64>,
    types: BTreeMap<String, u64>,
    distinct_faulted: HashSet<u64>,
    distinct_all: HashSet<u64>,
    digest: u64,
    presence_patterns: HashSet<(String, Vec<bool>)>,
    samples: Vec<serde_json::Value>,
    /// first violating case per finding key (what fails, not which seed found it)
    /// first violating case per finding key: (value index, case index, case, outcome, first value index of the worker that saw it)
    violations: BTreeMap<String, (u64, usize, Case, Outcome, u64)>,
}

fn run_range(seed: u64, from: u64, to: u64, thorough: bool) -> Stats {
    let mut st = Stats::default();
    let trace_slow = std::env::var("DST_TRACE_SLOW").is_ok();
    for i in from..to {
        let t_val = Instant::now();
        let cases = cases_for_value(seed, i, thorough);
        if trace_slow {
            eprintln!("value {i}: {} {} cases, probe {:.2}s", cases[0].type_name, cases.len(), t_val.elapsed().as_secs_f64());
        }
        st.values += 1;
        *st.types.entry(cases[0].type_name.clone()).or_default() += 1;
        for (ci, case) in cases.iter().enumerate() {
            let o = run_case(case);
            st.cases += 1;
            st.sink_calls += o.history.len() as u64;
            let h = history_hash(case, &o);
            st.digest = st.digest.wrapping_add(h.wrapping_mul(0x9E3779B97F4A7C15) ^ (h >> 7));
            st.distinct_all.insert(h);
            if !o.faults_fired.is_empty() {
                st.faulted_cases += 1;
                st.distinct_faulted.insert(h);
                for (k, v) in &o.faults_fired {
                    *st.fired.entry(k.clone()).or_default() += v;
                }
            }
            if !o.returned_ok {
                st.err_returns += 1;
            }
            if ci == 0 {
                st.presence_patterns.insert((case.type_name.clone(), o.presence.clone()));
            }
            if st.samples.len() < 3 && !o.faults_fired.is_empty() && (i - from) % 5 == 0 && ci % 7 == 3 {
                st.samples.push(serde_json::json!({
                    "case": case, "rendering": o.reference_text, "sink_holds": o.sink_text, "returned_ok": o.returned_ok,
                    "history": o.history.iter().map(|e| format!("{}:{}/{}", e.kind, e.taken, e.len)).collect::<Vec<_>>(),
                }));
            }
            if let Some((class, msg)) = &o.violation {
                let key = finding_key_of(class, case, msg);
                if st.violations.len() < 256 && !st.violations.contains_key(&key) {
                    st.violations.insert(key, (i, ci, case.clone(), o, from));
                }
            }
        }
        if trace_slow {
            eprintln!("DONE value {i}");
        }
        if trace_slow && t_val.elapsed().as_secs_f64() > 1.0 {
            eprintln!("SLOW value {i}: {} {} cases, {:.2}s, max_dim {}", cases[0].type_name, cases.len(), t_val.elapsed().as_secs_f64(), cases[0].max_dim);
        }
    }
    st
}

fn same_class(case: &Case, class: &Class) -> Option<Outcome> {
    let o = run_case(case);
    match &o.violation {
        Some((c, _)) if c == class => Some(o),
        _ => None,
    }
}

/// Shrink a failing case while the same class of violation persists.
fn minimise(mut case: Case, class: &Class, known_keys: &[String]) -> (Case, Outcome, u32) {
    let mut steps = 0;
    let mut best = same_class(&case, class).expect("minimise called on a passing case");
    macro_rules! try_case {
        ($c:expr) => {{
            let c: Case = $c;
            if c != case {
                if let Some(o) = same_class(&c, class) {
                    case = c;
                    best = o;
                    steps += 1;
                    true
                } else {
                    false
                }
            } else {
                false
            }
        }};
    }
    // 1. simplest sink that still shows it
    if matches!(class, Class::Layout | Class::Panic) {
        try_case!(Case { sink: SinkSpec::Fmt(FmtPlan::None), ..case.clone() });
    }
    // 2. explicit fault set instead of seeded / capacity plans, then drop faults one by one
    if let SinkSpec::Fmt(_) = &case.sink {
        let rejected: Vec<usize> = best.history.iter().enumerate().filter(|(_, e)| !e.ok).map(|(i, _)| i).collect();
        if !rejected.is_empty() {
            try_case!(Case { sink: SinkSpec::Fmt(FmtPlan::FailSet(rejected.clone())), ..case.clone() });
            if let SinkSpec::Fmt(FmtPlan::FailSet(set)) = case.sink.clone() {
                let mut cur = set;
                let mut idx = 0;
                while cur.len() > 1 && idx < cur.len() {
                    let mut t = cur.clone();
                    t.remove(idx);
                    if try_case!(Case { sink: SinkSpec::Fmt(FmtPlan::FailSet(t.clone())), ..case.clone() }) {
                        cur = t;
                    } else {
                        idx += 1;
                    }
                }
                if cur.len() == 1 {
                    try_case!(Case { sink: SinkSpec::Fmt(FmtPlan::FailOnce(cur[0])), ..case.clone() });
                }
            }
        }
    }
    if let SinkSpec::Io(_) = &case.sink {
        let fired: Vec<(usize, IoAct)> = best
            .history
            .iter()
            .enumerate()
            .filter_map(|(i, e)| match e.kind {
                "short" => Some((i, IoAct::Short(e.taken))),
                "eintr" => Some((i, IoAct::Interrupted)),
                "error" => Some((i, IoAct::Error)),
                "wouldblock" => Some((i, IoAct::WouldBlock)),
                "zero" => Some((i, IoAct::Zero)),
                "panic" => Some((i, IoAct::Panic)),
                _ => None,
            })
            .collect();
        if !fired.is_empty() {
            try_case!(Case { sink: SinkSpec::Io(IoPlan::At(fired.clone())), ..case.clone() });
            if let SinkSpec::Io(IoPlan::At(v)) = case.sink.clone() {
                let mut cur = v;
                let mut idx = 0;
                while cur.len() > 1 && idx < cur.len() {
                    let mut t = cur.clone();
                    t.remove(idx);
                    if try_case!(Case { sink: SinkSpec::Io(IoPlan::At(t.clone())), ..case.clone() }) {
                        cur = t;
                    } else {
                        idx += 1;
                    }
                }
            }
        }
    }
    // 3. simpler values: small distinct integers, smaller dimensions, all parts present / absent.
    //    A simpler value renders with different sink calls, so the fault position is searched again:
    //    first the plan as it is, then every single-fault position of the simpler rendering.
    // transformations are applied to the *current* best case, in this order
    let mut transforms: Vec<Box<dyn Fn(&Case) -> Case>> = vec![
        Box::new(|c| Case { simple: true, present_permille: 1000, ..c.clone() }),
        Box::new(|c| Case { simple: true, ..c.clone() }),
        Box::new(|c| Case { simple: true, present_permille: 0, ..c.clone() }),
    ];
    for md in 0..case.max_dim {
        transforms.push(Box::new(move |c| Case { max_dim: md.min(c.max_dim), ..c.clone() }));
    }
    // finally: the simplest type of the table that shows the same class of violation
    for (name, _) in TYPES.iter() {
        let name = name.to_string();
        if known_keys.iter().any(|k| *k == format!("{:?}:{}", class, name) || k.starts_with(&format!("{:?}:{}:", class, name))) {
            continue; // never minimise an unlisted finding into the identity of a listed one
        }
        transforms.push(Box::new(move |c| {
            let cur = TYPES.iter().position(|(n, _)| *n == c.type_name).unwrap_or(0);
            let cand = TYPES.iter().position(|(n, _)| *n == name).unwrap_or(usize::MAX);
            if cand < cur { Case { type_name: name.clone(), ..c.clone() } } else { c.clone() }
        }));
    }
    for tf in transforms {
        let cand = tf(&case);
        if cand == case {
            continue;
        }
        if try_case!(cand.clone()) {
            continue;
        }
        if matches!(case.sink, SinkSpec::Fmt(FmtPlan::None) | SinkSpec::Io(IoPlan::None)) {
            continue; // the violation shows without any fault: there is no fault position to search again
        }
        let is_io = matches!(cand.sink, SinkSpec::Io(_));
        let probe = run_case(&Case { sink: if is_io { SinkSpec::Io(IoPlan::None) } else { SinkSpec::Fmt(FmtPlan::None) }, ..cand.clone() });
        let n = probe.history.len();
        let mut found = false;
        for k in 0..n {
            let plans: Vec<SinkSpec> = if is_io {
                vec![SinkSpec::Io(IoPlan::At(vec![(k, IoAct::Error)])), SinkSpec::Io(IoPlan::At(vec![(k, IoAct::Short(1))])), SinkSpec::Io(IoPlan::At(vec![(k, IoAct::Interrupted)]))]
            } else {
                vec![SinkSpec::Fmt(FmtPlan::FailOnce(k)), SinkSpec::Fmt(FmtPlan::FailFrom(k))]
            };
            for pl in plans {
                if try_case!(Case { sink: pl, ..cand.clone() }) {
                    found = true;
                    break;
                }
            }
            if found {
                break;
            }
        }
    }
    (case, best, steps)
}


fn in_fresh_thread<T: Send + 'static>(f: impl FnOnce() -> T + Send + 'static) -> T {
    std::thread::spawn(f).join().expect("harness thread panicked")
}

/// Everything a worker rendered, in order, from value `from` up to case `ci` of value `vi` (the probes of
/// cases_for_value included).  Must run on a scratch thread: generating the cases executes the probes.
fn trace_for(seed: u64, thorough: bool, from: u64, vi: u64, ci: usize) -> Vec<Case> {
    let mut seq = vec![];
    for v in from..=vi {
        let cases = cases_for_value(seed, v, thorough);
        seq.extend(cases.iter().take(2).cloned()); // the two probes
        let upto = if v == vi { (ci + 1).min(cases.len()) } else { cases.len() };
        seq.extend(cases[..upto].iter().cloned());
    }
    seq
}

/// set by --isolated: every replay attempt runs in a process of its own (state shared between threads - a static
/// behind a lock - survives a fresh thread, not a fresh process)
static ISOLATED: std::sync::atomic::AtomicBool = std::sync::atomic::AtomicBool::new(false);
static VERIF_DIR: std::sync::OnceLock<String> = std::sync::OnceLock::new();
static TMP_COUNTER: std::sync::atomic::AtomicU64 = std::sync::atomic::AtomicU64::new(0);

/// the same question answered by a fresh process: `self --replay <file>` exits 1 and names the class
fn sequence_violates_in_fresh_process(seq: &[Case], class: &Class) -> Option<Outcome> {
    let dir = format!("{}/replays", VERIF_DIR.get().map(String::as_str).unwrap_or("/verif"));
    let _ = std::fs::create_dir_all(&dir);
    let path = format!("{dir}/tmp-{}-{}.json", std::process::id(), TMP_COUNTER.fetch_add(1, std::sync::atomic::Ordering::Relaxed));
    let rf = ReplayFile {
        property: "C18".into(), class: class.clone(), message: String::new(), seed: 0, value_index: 0, case_index: 0, case: seq.last()?.clone(), sequence: Some(seq.to_vec()),
        minimised_from: None, minimise_steps: 0, rendering: String::new(), sink_holds: String::new(), returned_ok: false, history: vec![], finding_key: String::new(),
    };
    std::fs::write(&path, serde_json::to_string(&rf).ok()?).ok()?;
    let out = std::process::Command::new(std::env::current_exe().ok()?).args(["--replay", &path, "--verif-dir", VERIF_DIR.get().map(String::as_str).unwrap_or("/verif")]).output().ok()?;
    let _ = std::fs::remove_file(&path);
    let text = String::from_utf8_lossy(&out.stdout);
    let tag = format!("  violation : {class:?}: ");
    let msg = text.lines().find_map(|l| l.strip_prefix(&tag))?;
    if out.status.code() != Some(1) {
        return None;
    }
    Some(Outcome {
        reference_text: String::new(), sink_text: String::new(), returned_ok: false, history: vec![], presence: vec![], dims: vec![],
        violation: Some((class.clone(), msg.to_string())), faults_fired: BTreeMap::new(),
    })
}

/// Run a sequence of cases on a fresh thread (fresh thread-local state); the outcome of the last one if it
/// violates `class`.
fn sequence_violates(seq: &[Case], class: &Class) -> Option<Outcome> {
    if ISOLATED.load(std::sync::atomic::Ordering::Relaxed) {
        return sequence_violates_in_fresh_process(seq, class);
    }
    let (seq, class) = (seq.to_vec(), class.clone());
    in_fresh_thread(move || {
        let mut last = None;
        for c in &seq {
            last = Some(run_case(c));
        }
        last.filter(|o| matches!(&o.violation, Some((c, _)) if *c == class))
    })
}

/// Shrink a history that ends in a violation: shortest suffix of whole values first, then delta debugging on
/// the prefix (the failing case always stays last).
fn minimise_sequence(mut seq: Vec<Case>, class: &Class) -> (Vec<Case>, Outcome, u32) {
    let mut best = sequence_violates(&seq, class).expect("minimise_sequence called on a passing history");
    let mut steps = 0;
    let mut budget = 600;
    // suffixes
    let mut k = 2;
    while k < seq.len() && budget > 0 {
        let cand = seq[seq.len() - k..].to_vec();
        budget -= 1;
        if let Some(o) = sequence_violates(&cand, class) {
            seq = cand;
            best = o;
            steps += 1;
            break;
        }
        k *= 2;
    }
    // delta debugging on the prefix
    let mut chunk = (seq.len() - 1).max(1) / 2;
    while chunk >= 1 && budget > 0 {
        let mut start = 0;
        let mut removed_any = false;
        while start + chunk <= seq.len() - 1 && budget > 0 {
            let mut cand = seq.clone();
            cand.drain(start..start + chunk);
            budget -= 1;
            if let Some(o) = sequence_violates(&cand, class) {
                seq = cand;
                best = o;
                steps += 1;
                removed_any = true;
            } else {
                start += chunk;
            }
        }
        if chunk == 1 && !removed_any {
            break;
        }
        chunk = if removed_any { chunk.min((seq.len() - 1).max(1)) } else { chunk / 2 };
    }
    // simpler values in every step, if the violation survives it
    for tf in [|c: &Case| Case { simple: true, present_permille: 1000, ..c.clone() }, |c: &Case| Case { simple: true, ..c.clone() }] {
        let cand: Vec<Case> = seq.iter().map(tf).collect();
        if cand != seq {
            if let Some(o) = sequence_violates(&cand, class) {
                seq = cand;
                best = o;
                steps += 1;
                break;
            }
        }
    }
    (seq, best, steps)
}

#[derive(Serialize, Deserialize)]
struct ReplayFile {
    property: String,
    class: Class,
    message: String,
    seed: u64,
    value_index: u64,
    case_index: usize,
    case: Case,
    /// for a violation that depends on what was rendered before on the same thread: the whole history, in order;
    /// `case` is its last element
    #[serde(default)]
    sequence: Option<Vec<Case>>,
    minimised_from: Option<Case>,
    minimise_steps: u32,
    rendering: String,
    sink_holds: String,
    returned_ok: bool,
    history: Vec<String>,
    finding_key: String,
}

/// Identity of a finding for the known-findings file: what fails, not which seed found it.
fn finding_key(class: &Class, case: &Case) -> String {
    format!("{:?}:{}", class, case.type_name)
}

/// A panic is identified by what panicked as well, so that a listed panic never hides another one on the same type.
fn finding_key_of(class: &Class, case: &Case, msg: &str) -> String {
    if *class == Class::Panic {
        let what: String = msg.rsplit(": ").next().unwrap_or("").chars().filter(|c| c.is_ascii_alphanumeric() || *c == ' ').take(48).collect();
        format!("{}:{}", finding_key(class, case), what.trim())
    } else {
        finding_key(class, case)
    }
}

fn known_findings(path: &str) -> Vec<(String, String)> {
    // lines of the form {"property":"C18","key":"...","what":"..."} inside a JSON array; absent file = none
    let Ok(txt) = std::fs::read_to_string(path) else { return vec![] };
    let Ok(v) = serde_json::from_str::<serde_json::Value>(&txt) else { return vec![] };
    v.get("known").and_then(|k| k.as_array()).map(|a| {
        a.iter()
            .filter(|e| e.get("property").and_then(|p| p.as_str()) == Some("C18"))
            .filter_map(|e| Some((e.get("key")?.as_str()?.to_string(), e.get("what").and_then(|w| w.as_str()).unwrap_or("").to_string())))
            .collect()
    }).unwrap_or_default()
}

fn arg(args: &[String], name: &str) -> Option<String> {
    args.iter().position(|a| a == name).and_then(|i| args.get(i + 1).cloned())
}

fn main() {
    let args: Vec<String> = std::env::args().collect();
    let verif_dir = arg(&args, "--verif-dir").unwrap_or_else(|| "/verif".to_string());
    let _ = VERIF_DIR.set(verif_dir.clone());
    let isolated = args.iter().any(|a| a == "--isolated");
    ISOLATED.store(isolated, std::sync::atomic::Ordering::Relaxed);
    if let Some(path) = arg(&args, "--replay") {
        let txt = std::fs::read_to_string(&path).unwrap_or_else(|e| { eprintln!("cannot read {path}: {e}"); std::process::exit(2) });
        let rf: ReplayFile = serde_json::from_str(&txt).unwrap_or_else(|e| { eprintln!("bad replay file: {e}"); std::process::exit(2) });
        if let Some(seq) = &rf.sequence {
            println!("replay of {path}: a history of {} renderings on one thread", seq.len());
            for c in &seq[..seq.len().saturating_sub(1)] {
                let o = run_case(c);
                println!("  step: {} {:?} -> {}", c.type_name, c.sink, if o.returned_ok { "Ok" } else { "Err" });
            }
        }
        let o = run_case(&rf.case);
        println!("replay of {path}: type {} sink {:?}", rf.case.type_name, rf.case.sink);
        println!("  rendering : {:?}", o.reference_text);
        println!("  sink holds: {:?}", o.sink_text);
        println!("  returned  : {}", if o.returned_ok { "Ok" } else { "Err" });
        println!("  history   : {}", o.history.iter().map(|e| format!("{}:{}/{}", e.kind, e.taken, e.len)).collect::<Vec<_>>().join(" "));
        match o.violation {
            Some((c, m)) => {
                println!("  violation : {c:?}: {m}");
                println!("VIOLATION property=C18 replay={path}");
                std::process::exit(1);
            }
            None => {
                println!("  no violation on this tree");
                std::process::exit(0);
            }
        }
    }
    let tier = arg(&args, "--tier").or_else(|| std::env::var("VERIF_TIER").ok()).unwrap_or_else(|| "quick".to_string());
    let thorough = tier == "thorough";
    let seed: u64 = arg(&args, "--seed").or_else(|| std::env::var("VERIF_SEED").ok()).and_then(|s| s.trim().parse().ok()).unwrap_or(20261002);
    let values: u64 = arg(&args, "--values").and_then(|s| s.parse().ok()).unwrap_or(if thorough { 300_000 } else { 1_000 });
    let threads: u64 = if isolated { 1 } else { arg(&args, "--threads").and_then(|s| s.parse().ok()).unwrap_or_else(|| std::thread::available_parallelism().map(|n| n.get() as u64).unwrap_or(4)) };
    let evidence_path = arg(&args, "--evidence").unwrap_or_else(|| format!("{verif_dir}/evidence/C18.json"));
    println!("C18 sink simulation: seed={seed} tier={tier} values={values} threads={threads} types={}", TYPES.len());
    // silence the default panic hook: panics inside the code under test are caught and classified
    std::panic::set_hook(Box::new(|_| {}));
    let t0 = Instant::now();

    let run_all = |nthreads: u64, n: u64| -> Stats {
        let chunk = (n + nthreads - 1) / nthreads;
        let handles: Vec<_> = (0..nthreads)
            .map(|t| {
                let (from, to) = (t * chunk, ((t + 1) * chunk).min(n));
                std::thread::spawn(move || run_range(seed, from, to.max(from), thorough))
            })
            .collect();
        let mut total = Stats::default();
        for h in handles {
            let s = h.join().expect("harness thread panicked");
            total.values += s.values;
            total.cases += s.cases;
            total.faulted_cases += s.faulted_cases;
            total.err_returns += s.err_returns;
            total.sink_calls += s.sink_calls;
            total.digest = total.digest.wrapping_add(s.digest);
            for (k, v) in s.fired {
                *total.fired.entry(k).or_default() += v;
            }
            for (k, v) in s.types {
                *total.types.entry(k).or_default() += v;
            }
            total.distinct_faulted.extend(s.distinct_faulted);
            total.distinct_all.extend(s.distinct_all);
            total.presence_patterns.extend(s.presence_patterns);
            if total.samples.len() < 4 {
                total.samples.extend(s.samples.into_iter().take(2));
            }
            for (k, v) in s.violations {
                let better = total.violations.get(&k).map_or(true, |b| (v.0, v.1) < (b.0, b.1));
                if better {
                    total.violations.insert(k, v);
                }
            }
        }
        total
    };

    let st = run_all(threads, values);
    let main_wall = t0.elapsed().as_secs_f64();

    // determinism: the same seed with another partition of the work must give the same multiset of histories
    let det_values = (values / 4).clamp(1, 2000);
    let d1 = if isolated { Stats::default() } else { run_all(threads, det_values) };
    let d2 = if isolated { Stats::default() } else { run_all(3, det_values) };
    let deterministic = d1.digest == d2.digest && d1.cases == d2.cases && d1.violations.keys().eq(d2.violations.keys());
    if !isolated && !deterministic && st.violations.is_empty() && d1.violations.is_empty() && d2.violations.is_empty() {
        // every case is a pure function of its description as far as the harness is concerned, so this means the
        // code under test renders the same value differently depending on what the thread rendered before - without
        // (so far) breaking an invariant.  Not a verdict about C18; not silence either.
        eprintln!("HARNESS ERROR: two executions of seed {seed} differ (digest {:x} vs {:x}, cases {} vs {}): renderings depend on the history of the thread", d1.digest, d2.digest, d1.cases, d2.cases);
        std::process::exit(2);
    }

    let mut exit = 0;
    let mut violations: i32 = 0;
    let mut known_hits: Vec<String> = vec![];
    let known = known_findings(&format!("{verif_dir}/known_findings.json"));
    let mut found: Vec<(&String, &(u64, usize, Case, Outcome, u64))> = st.violations.iter().collect();
    found.sort_by_key(|(_, v)| (v.0, v.1));
    let mut unknown_keys: Vec<String> = vec![];
    for (key, (vi, ci, case, o, worker_from)) in found {
        if let Some((_, what)) = known.iter().find(|(k, _)| k == key) {
            println!("KNOWN-FINDING: property=C18 {key}: {what}");
            known_hits.push(key.clone());
            continue;
        }
        unknown_keys.push(key.clone());
        if exit == 1 {
            continue; // one VIOLATION line and one replay file per run; the other keys are listed in the evidence
        }
        let (class, msg) = o.violation.clone().unwrap();
        eprintln!("found {key} at value {vi} case {ci}: {}; minimising ...", msg.chars().take(300).collect::<String>());
        // does the case fail on its own (fresh thread, nothing rendered before)?
        // does the case fail on its own?  Asked of a fresh process, so that neither thread-local nor global state left by
        // the batch can answer for it.
        let alone = sequence_violates_in_fresh_process(std::slice::from_ref(case), &class).is_some();
        let dir = format!("{verif_dir}/replays");
        let _ = std::fs::create_dir_all(&dir);
        let path = format!("{dir}/C18-seed{seed}-v{vi}-c{ci}.json");
        if !alone {
            // it needs what the same thread rendered before: rebuild that history, confirm, shrink, report it whole
            let (wf, v, c) = (*worker_from, *vi, *ci);
            let full = in_fresh_thread(move || trace_for(seed, thorough, wf, v, c));
            let confirmed = sequence_violates(&full, &class).is_some();
            let minimised = if confirmed { Some(minimise_sequence(full.clone(), &class)) } else { None };
            let replays = minimised.as_ref().map_or(false, |(seq, _, _)| isolated || sequence_violates_in_fresh_process(seq, &class).is_some());
            if !replays {
                if !isolated {
                    // state shared between threads?  Search again with ONE worker in a process of its own, in which every
                    // replay attempt is a fresh process too: the global order of renderings is then deterministic.
                    eprintln!("the violation {key} seen at value {vi} case {ci} reproduces neither alone nor from the history of its worker: searching again with one worker and process-isolated replays ...");
                    let child = std::process::Command::new(std::env::current_exe().expect("current_exe"))
                        .args(["--isolated", "--tier", &tier, "--seed", &seed.to_string(), "--values", &(st.violations.values().map(|v| v.0).max().unwrap_or(*vi) + 1).to_string(), "--verif-dir", &verif_dir, "--evidence", &format!("{verif_dir}/replays/isolated-evidence.json")])
                        .output();
                    if let Ok(out) = child {
                        let text = String::from_utf8_lossy(&out.stdout);
                        if out.status.code() == Some(1) && text.contains("VIOLATION property=C18") {
                            for l in text.lines().filter(|l| l.starts_with("violation class") || l.starts_with("  ") || l.starts_with("VIOLATION")) {
                                println!("{l}");
                            }
                            println!("  (found by the process-isolated search: the state involved is shared between threads)");
                            exit = 1;
                            continue;
                        }
                    }
                }
                eprintln!("HARNESS ERROR: the violation {key} seen at value {vi} case {ci} reproduces neither alone nor from the history of its worker (values {wf}..={vi})");
                std::process::exit(2);
            }
            let n0 = full.len();
            let (seq, mo, steps) = minimised.expect("confirmed above");
            let last = seq.last().unwrap().clone();
            let rf = ReplayFile {
                property: "C18".into(), class: class.clone(), message: mo.violation.as_ref().map(|v| v.1.clone()).unwrap_or(msg), seed, value_index: *vi, case_index: *ci,
                case: last.clone(), sequence: Some(seq.clone()), minimised_from: None, minimise_steps: steps,
                rendering: mo.reference_text.clone(), sink_holds: mo.sink_text.clone(), returned_ok: mo.returned_ok,
                history: mo.history.iter().map(|e| format!("{}:{}/{}", e.kind, e.taken, e.len)).collect(), finding_key: key.clone(),
            };
            std::fs::write(&path, serde_json::to_string_pretty(&rf).unwrap()).expect("cannot write replay file");
            println!("violation class {class:?} on {} (value {vi}, case {ci}) that depends on what the thread rendered before; history of {n0} renderings minimised in {steps} steps to {}:", case.type_name, seq.len());
            for c in &seq {
                println!("    {} {:?}", c.type_name, c.sink);
            }
            println!("  {}", rf.message);
            println!("VIOLATION property=C18 replay={path}");
            exit = 1;
            continue;
        }
        let (mcase, mo, steps) = minimise(case.clone(), &class, &known.iter().map(|(k, _)| k.clone()).collect::<Vec<_>>());
        let rf = ReplayFile {
            property: "C18".into(), class: class.clone(), message: mo.violation.as_ref().map(|v| v.1.clone()).unwrap_or(msg), seed, value_index: *vi, case_index: *ci,
            case: mcase.clone(), sequence: None, minimised_from: if mcase != *case { Some(case.clone()) } else { None }, minimise_steps: steps,
            rendering: mo.reference_text.clone(), sink_holds: mo.sink_text.clone(), returned_ok: mo.returned_ok,
            history: mo.history.iter().map(|e| format!("{}:{}/{}", e.kind, e.taken, e.len)).collect(), finding_key: key.clone(),
        };
        std::fs::write(&path, serde_json::to_string_pretty(&rf).unwrap()).expect("cannot write replay file");
        println!("violation class {class:?} on {} (value {vi}, case {ci}); minimised in {steps} steps to {} {:?}", case.type_name, mcase.type_name, mcase.sink);
        println!("  {}", rf.message);
        println!("VIOLATION property=C18 replay={path}");
        exit = 1;
    }
    violations = unknown_keys.len() as i32;
    let wall = t0.elapsed().as_secs_f64();
    let rule = "one case = (type, seeded value with presence pattern and dimensions, sink kind, fault plan) executed against the real Display code; \
for every value the fault-free case, EVERY single-fault position for renderings of at most 320 sink calls - for longer ones the first and last 16 calls and a seeded stride in between - (fmt: reject-once and reject-from at each write_str call, a panicking sink at every third; io: error, EINTR, 1-byte short write, and WouldBlock or a zero-length write at each write call) \
and seeded multi-fault plans (capacity, random rejection, fault sets, mixed io faults, all-short) are run; the thorough tier adds EVERY pair of rejected write_str calls for renderings of at most 40 calls. distinct_nontrivial = number of distinct histories \
(type, presence, dimensions, sink kind, per-call offered/accepted bytes and verdict, return value) among cases in which at least one injected fault actually fired";
    let ev = serde_json::json!({
        "property_id": "C18",
        "tier": tier,
        "seed": seed,
        "level": "exploration",
        "coverage": {
            "evaluations": st.cases,
            "distinct_nontrivial": st.distinct_faulted.len(),
            "rule": rule,
            "samples": st.samples,
            "values_generated": st.values,
            "cases_with_a_fault_fired": st.faulted_cases,
            "distinct_histories_all": st.distinct_all.len(),
            "renderings_that_reported_error": st.err_returns,
            "sink_calls_simulated": st.sink_calls,
            "fault_kinds_fired": st.fired,
            "types_covered": st.types.len(),
            "values_per_type": st.types,
            "distinct_type_presence_patterns": st.presence_patterns.len(),
            "simulated_runs_per_hour": (st.cases as f64 / main_wall.max(1e-9) * 3600.0) as u64,
            "seeds_per_hour_at_this_tier": (3600.0 / wall.max(1e-9)) as u64,
            "simulated_time": "none: the code under test reads no clock and has no timers; a run is one rendering",
            "determinism_check": { "values": det_values, "cases": d1.cases, "thread_partitions": [threads, 3], "digest_equal": deterministic, "digest": format!("{:016x}", d1.digest) },
            "real_components": ["num-dual Display impls (8 types) and Derivative::fmt", "nalgebra Matrix Display", "core float formatting and fmt::write", "std io::Write::write_fmt adapter"],
            "stubbed_components": ["the sink: fmt::Write (all-or-nothing) and io::Write (short writes, EINTR, errors) under the simulator's fault plans"],
            "invariants": ["I1 layout: fault-free text reads as exactly the stored values and symbols; a matrix part of plain numbers, if shown in rows at all, is shown with its own number of rows and columns", "I2 complete: reported success implies the sink holds the complete text", "I3 no spurious error or panic when the sink accepted everything"],
            "known_findings_hit": known_hits,
            "unlisted_finding_keys": unknown_keys,
            "exhaustive": false
        },
        "assumptions": [
            "values are sampled (seeded), fault positions are swept exhaustively only for single faults per value",
            "finite part values only (the property's quantifier); NaN and infinities are not generated",
            "symbol table and reading order are taken from the property text and the crate documentation of the pinned commit",
            "nothing is demanded of sink contents when rendering reports an error"
        ],
        "wall_s": wall,
        "violations": violations
    });
    if let Some(parent) = std::path::Path::new(&evidence_path).parent() {
        let _ = std::fs::create_dir_all(parent);
    }
    std::fs::write(&evidence_path, serde_json::to_string_pretty(&ev).unwrap()).expect("cannot write evidence");
    println!(
        "values={} cases={} faulted={} distinct_faulted_histories={} err_returns={} types={} wall={:.1}s deterministic={}",
        st.values, st.cases, st.faulted_cases, st.distinct_faulted.len(), st.err_returns, st.types.len(), wall, deterministic
    );
    println!("fault kinds fired: {:?}", st.fired);
    let _ = std::io::stdout().flush();
    std::process::exit(exit);
}
