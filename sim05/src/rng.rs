//! SplitMix64: the only source of randomness in the simulator.  Everything a run does is a pure
//! function of the u64 it is created from.

#[derive(Clone, Debug)]
pub struct Rng(pub u64);

impl Rng {
    pub fn new(seed: u64) -> Self {
        Rng(seed ^ 0x9E37_79B9_7F4A_7C15)
    }
    pub fn next(&mut self) -> u64 {
        self.0 = self.0.wrapping_add(0x9E37_79B9_7F4A_7C15);
        let mut z = self.0;
        z = (z ^ (z >> 30)).wrapping_mul(0xBF58_476D_1CE4_E5B9);
        z = (z ^ (z >> 27)).wrapping_mul(0x94D0_49BB_1331_11EB);
        z ^ (z >> 31)
    }
    /// uniform in 0..n (n > 0)
    pub fn below(&mut self, n: usize) -> usize {
        (self.next() % n as u64) as usize
    }
    pub fn chance(&mut self, permille: u32) -> bool {
        (self.next() % 1000) < permille as u64
    }
    /// derive an independent stream
    pub fn fork(&mut self, tag: u64) -> Rng {
        Rng::new(self.next() ^ tag.wrapping_mul(0xD6E8_FEB8_6659_FD93))
    }
}

pub fn mix(a: u64, b: u64) -> u64 {
    let mut r = Rng::new(a ^ b.rotate_left(32) ^ 0xA076_1D64_78BD_642F);
    r.next() ^ b
}
