//! Deterministic simulation of num-dual's twenty derivative drivers over a simulator-owned closure (C05).
//!
//! Real code under test: the drivers (seeding, extraction, orientation), the dual arithmetic the closure performs,
//! nalgebra storage.  Simulated: what the closure does besides computing - return an error, panic, call the driver
//! again - and when.  Reference: exact symbolic derivatives of seeded integer polynomials (exact.rs).
//! One u64 decides every scenario, function, point and plan.  Invariants K1-K6: DESIGN.md section 15.

mod drivers;
pub mod exact;
mod rng;

use drivers::{call, handed, static_len, Ctx, Fx, Part, Plan, Token, BIG_STATIC2, DIMS1, DIMS2, SCALARS, SHAPE};
use exact::{Dy, Poly};
use rng::{mix, Rng};
use serde::{Deserialize, Serialize};
use std::collections::{BTreeMap, HashSet};
use std::io::Write as _;
use std::panic::{catch_unwind, AssertUnwindSafe};
use std::time::Instant;

const DRIVERS: &[&str] = &[
    "first_derivative", "second_derivative", "third_derivative", "gradient", "jacobian", "hessian", "second_partial_derivative", "partial_hessian",
    "third_partial_derivative", "third_partial_derivative_vec",
];

#[derive(Clone, Debug, Serialize, Deserialize, PartialEq)]
pub struct Scenario {
    pub driver: String,
    /// f64 | f32 | nested (T = Dual64: every input carries a direction, every output its directional derivative)
    pub scalar: String,
    /// S<n> static, Dyn dynamic; "AxB" for the two-dimension drivers (jacobian: outputs x inputs; partial_hessian: x x y)
    pub dim: String,
    /// number of inputs (jacobian, gradient, hessian, third_partial_derivative_vec) / entries of y (partial_hessian)
    pub n: usize,
    /// number of outputs (jacobian) / entries of x (partial_hessian)
    pub m: usize,
    pub seed: u64,
    /// the simplest function and point (minimised replays)
    pub simple: bool,
    pub ijk: [usize; 3],
    /// 0: the scenario itself; 1: its companion - other function, point and indices, same dimensions (the inner call
    /// of the re-entrancy plans, and the first call after a faulted one); 2: companion with every dynamic dimension
    /// one larger
    #[serde(default)]
    pub variant: u8,
    /// 0: results as they come; 1: the closure scales its result by the power of two that puts the largest
    /// component of the driver's result into the top binade of the float type; 2: the smallest into the bottom one
    #[serde(default)]
    pub scale_mode: u8,
    /// the closure evaluates the inexact family (products, quotients, sin, exp with non-dyadic constants at non-dyadic
    /// points): no exact reference exists; the first fault-free result of the scenario is the reference for all its other
    /// calls (both variants, every residue run), and scaling by a power of two must scale every component exactly
    #[serde(default)]
    pub inexact: bool,
    /// with `inexact`: the function whose second and higher derivatives cancel analytically (what the code computes for
    /// them is rounding residue without symmetry or pattern)
    #[serde(default)]
    pub cancel: bool,
    /// the closure returns a number it builds by hand (any part present or absent independently of the others) instead
    /// of computing one: the reference is what it built
    #[serde(default)]
    pub hand: bool,
}

impl Scenario {
    /// the scenario a variant stands for: same driver and type configuration; other seed, indices, (dimensions)
    fn resolved(&self) -> Scenario {
        if self.variant == 0 {
            return self.clone();
        }
        let mut s = self.clone();
        s.seed = mix(self.seed, 0xA17 + self.variant as u64);
        s.simple = false;
        s.scale_mode = 0;
        s.inexact = false;
        s.cancel = false;
        s.hand = false;
        if self.variant == 2 {
            match s.dim.as_str() {
                "Dyn" => s.n += 1,
                "DynxDyn" => {
                    s.m += 1;
                    s.n += 1;
                }
                "S2xDyn" => s.n += 1,
                "DynxS3" => s.m += 1,
                _ => {}
            }
            if s.driver == "third_partial_derivative_vec" {
                s.n += 1;
            }
        }
        if s.driver == "third_partial_derivative_vec" {
            let n = s.n;
            s.ijk = [(self.ijk[0] + 1) % n, (self.ijk[1] + 2) % n, (self.ijk[2] + n - 1) % n];
        }
        s.variant = 0;
        s
    }
}

#[derive(Clone, Debug, Serialize, Deserialize, PartialEq)]
pub struct Case {
    pub sc: Scenario,
    /// the try_ variant
    pub fallible: bool,
    pub plan: Plan,
}

#[derive(Clone, Debug, Serialize, Deserialize, PartialEq, Eq, PartialOrd, Ord)]
pub enum Class {
    /// K1 / K2: a component of the result differs from the exact reference
    WrongValue,
    /// K3
    ErrorLost,
    /// K4
    PanicLost,
    /// K5
    Reentrancy,
    /// K6
    CallCount,
    /// K9: the closure was handed another point than the caller passed
    WrongPoint,
    UnexpectedFailure,
}

#[derive(Clone, Debug, Serialize)]
pub struct Outcome {
    pub kind: String,
    pub calls: u32,
    pub function: String,
    pub point: String,
    pub got: Vec<String>,
    pub want: Vec<String>,
    pub violation: Option<(Class, String)>,
}

fn nvars(sc: &Scenario) -> usize {
    match sc.driver.as_str() {
        "first_derivative" | "second_derivative" | "third_derivative" => 1,
        "second_partial_derivative" => 2,
        "third_partial_derivative" => 3,
        "partial_hessian" => sc.m + sc.n,
        _ => sc.n,
    }
}

fn build_fx(sc: &Scenario) -> Fx {
    let mut r = Rng::new(mix(sc.seed, 0x5005));
    let nv = nvars(sc);
    let max_deg = match sc.driver.as_str() {
        "first_derivative" | "second_derivative" | "third_derivative" => 5,
        "second_partial_derivative" | "third_partial_derivative" => 4,
        _ => 3,
    };
    let npoly = if sc.driver == "jacobian" { sc.m } else { 1 };
    // the "simplest function and point" has the value 1^2 + 2^2 + ... + n^2, which an f32 holds exactly only for moderate n
    let simple = sc.simple && !(sc.scalar == "f32" && nv > 64);
    let polys = (0..npoly).map(|_| Poly::gen(&mut r, nv, max_deg, simple)).collect();
    let (a, b): (Vec<f64>, Vec<[f64; 2]>) = if simple {
        ((0..nv).map(|i| (i + 1) as f64).collect(), (0..nv).map(|i| if i % 2 == 0 { [1.0, 0.0] } else { [-1.0, 2.0] }).collect())
    } else {
        // a coordinate that is zero is -0.0 one time in three (K9: the closure must be handed the caller's point, sign included)
        let a = (0..nv).map(|_| { let v = (r.below(9) as f64 - 4.0) / 2.0; if v == 0.0 && r.chance(330) { -0.0 } else { v } }).collect();
        // one variable in three carries no direction at all (for T = DualDVec64: an absent part)
        let b = (0..nv).map(|_| if r.chance(330) { [0.0, 0.0] } else { [(r.below(9) as f64 - 4.0) / 2.0, (r.below(9) as f64 - 4.0) / 2.0] }).collect();
        (a, b)
    };
    let ijk = if sc.driver == "partial_hessian" { [sc.m, 0, 0] } else { sc.ijk };
    let inexact = sc.inexact.then(|| (0..npoly).map(|_| Poly::gen(&mut r, nv, 2, false)).collect());
    let (a, b) = if sc.inexact {
        // non-dyadic points, kept small so that nothing overflows before the final scaling
        (a.iter().map(|v: &f64| v * 0.37 + 0.21).collect(), b.iter().map(|d: &[f64; 2]| [d[0] * 0.3 + 0.1, d[1] * 0.7 - 0.2]).collect())
    } else {
        (a, b)
    };
    Fx { polys, a, b, ijk, scale: 0, style: r.next(), inexact, cancel: sc.cancel, hand: sc.hand.then(|| mix(sc.seed, 0x4A4D)) }
}

/// the power of two the closure multiplies its result with (scale_mode), from the unscaled reference
fn scale_for(sc: &Scenario, unscaled: &[Part]) -> i32 {
    if sc.scale_mode == 0 || sc.hand {
        return 0;
    }
    let mags: Vec<f64> = unscaled.iter().filter(|p| p.0 != SHAPE).flat_map(|p| [Some(p.0), p.1, p.2]).flatten().map(|b| f64::from_bits(b).abs()).filter(|v| *v > 0.0).collect();
    if mags.is_empty() {
        return 0;
    }
    let (top, bottom) = if sc.scalar == "f32" { (127, -126) } else { (1023, -1022) };
    let exp_of = |v: f64| v.log2().floor() as i32;
    if sc.inexact {
        if sc.scale_mode != 1 {
            return 0;
        }
        // any one component into the top binade (larger ones overflow to infinity - identically in both runs)
        let pick = mags[(mix(sc.seed, 0x5CA1E) % mags.len() as u64) as usize];
        return (top - exp_of(pick)).clamp(0, top);
    }
    // the factor 2^k itself has to be a normal number of the float type
    if sc.scale_mode == 1 {
        (top - exp_of(mags.iter().cloned().fold(0.0, f64::max))).clamp(bottom, top)
    } else {
        (bottom - exp_of(mags.iter().cloned().fold(f64::INFINITY, f64::min))).clamp(bottom, top)
    }
}

fn apply_scale(parts: &[Part], k: i32, f32_subject: bool) -> Vec<Part> {
    if k == 0 {
        return parts.to_vec();
    }
    let f = 2f64.powi(k);
    // for f32 subjects the product is formed in f32 (it may overflow to infinity there and not in f64)
    let sc = |b: u64| if f32_subject { exact::canon(((f64::from_bits(b) as f32) * (f as f32)) as f64) } else { exact::canon(f64::from_bits(b) * f) };
    parts.iter().map(|p| if p.0 == SHAPE { *p } else { (sc(p.0), p.1.map(sc), p.2.map(sc)) }).collect()
}

/// what C05 promises for this scenario, from the exact reference
fn expected(sc: &Scenario, fx: &Fx) -> Vec<Part> {
    let ndir = match sc.scalar.as_str() {
        "nested" => 1,
        "nestedvec" => 2,
        _ => 0,
    };
    let f32s = sc.scalar == "f32";
    let a: Vec<Dy> = fx.a.iter().map(|v| Dy::halves((v * 2.0) as i64)).collect();
    let b0: Vec<Dy> = fx.b.iter().map(|v| Dy::halves((v[0] * 2.0) as i64)).collect();
    let b1: Vec<Dy> = fx.b.iter().map(|v| Dy::halves((v[1] * 2.0) as i64)).collect();
    let val = |q: &Poly| -> Part {
        (q.eval(&a).bits(f32s), if ndir >= 1 { Some(q.eval_dir(&a, &b0).bits(false)) } else { None }, if ndir >= 2 { Some(q.eval_dir(&a, &b1).bits(false)) } else { None })
    };
    let f = &fx.polys[0];
    let mut out = vec![];
    match sc.driver.as_str() {
        "first_derivative" => out.extend([val(f), val(&f.diff(0))]),
        "second_derivative" => out.extend([val(f), val(&f.diff(0)), val(&f.diff(0).diff(0))]),
        "third_derivative" => out.extend([val(f), val(&f.diff(0)), val(&f.diff(0).diff(0)), val(&f.diff(0).diff(0).diff(0))]),
        "second_partial_derivative" => out.extend([val(f), val(&f.diff(0)), val(&f.diff(1)), val(&f.diff(0).diff(1))]),
        "third_partial_derivative" | "third_partial_derivative_vec" => {
            let [i, j, k] = if sc.driver == "third_partial_derivative" { [0, 1, 2] } else { sc.ijk };
            out.extend([val(f), val(&f.diff(i)), val(&f.diff(j)), val(&f.diff(k)), val(&f.diff(i).diff(j)), val(&f.diff(i).diff(k)), val(&f.diff(j).diff(k)), val(&f.diff(i).diff(j).diff(k))]);
        }
        "gradient" | "hessian" => {
            out.push(val(f));
            out.push((SHAPE, Some(sc.n as u64), None));
            out.extend((0..sc.n).map(|i| val(&f.diff(i))));
            if sc.driver == "hessian" {
                out.push((SHAPE, Some(((sc.n as u64) << 32) | sc.n as u64), None));
                for i in 0..sc.n {
                    for j in 0..sc.n {
                        out.push(val(&f.diff(i).diff(j)));
                    }
                }
            }
        }
        "jacobian" => {
            out.push((SHAPE, Some(sc.m as u64), None));
            out.extend(fx.polys.iter().map(&val));
            out.push((SHAPE, Some(((sc.m as u64) << 32) | sc.n as u64), None));
            for p in &fx.polys {
                for j in 0..sc.n {
                    out.push(val(&p.diff(j)));
                }
            }
        }
        "partial_hessian" => {
            out.push(val(f));
            out.push((SHAPE, Some(sc.m as u64), None));
            out.extend((0..sc.m).map(|i| val(&f.diff(i))));
            out.push((SHAPE, Some(sc.n as u64), None));
            out.extend((0..sc.n).map(|j| val(&f.diff(sc.m + j))));
            out.push((SHAPE, Some(((sc.m as u64) << 32) | sc.n as u64), None));
            for i in 0..sc.m {
                for j in 0..sc.n {
                    out.push(val(&f.diff(i).diff(sc.m + j)));
                }
            }
        }
        other => panic!("harness error: driver {other}"),
    }
    out
}

fn show_part(p: &Part) -> String {
    if p.0 == SHAPE {
        let d = p.1.unwrap_or(0);
        return if d >> 32 == 0 { format!("<vector of {d}>") } else { format!("<matrix {}x{}>", d >> 32, d & 0xffff_ffff) };
    }
    match (p.1, p.2) {
        (None, _) => format!("{:?}", f64::from_bits(p.0)),
        (Some(e), None) => format!("{:?}+{:?}ε", f64::from_bits(p.0), f64::from_bits(e)),
        (Some(e), Some(e2)) => format!("{:?}+[{:?}, {:?}]ε", f64::from_bits(p.0), f64::from_bits(e), f64::from_bits(e2)),
    }
}

fn first_difference(got: &[Part], want: &[Part]) -> Option<String> {
    first_difference_as(got, want, "the exact value")
}

fn first_difference_as(got: &[Part], want: &[Part], what: &str) -> Option<String> {
    if got.len() != want.len() {
        return Some(format!("the result has {} entries (shape markers included), the reference {}", got.len(), want.len()));
    }
    got.iter().zip(want).position(|(g, w)| g != w).map(|i| format!("entry {i} of the flattened result is {}, {what} is {}", show_part(&got[i]), show_part(&want[i])))
}

fn panic_text(p: &(dyn std::any::Any + Send)) -> String {
    if let Some(s) = p.downcast_ref::<&str>() {
        s.to_string()
    } else if let Some(s) = p.downcast_ref::<String>() {
        s.clone()
    } else if let Some(t) = p.downcast_ref::<Token>() {
        format!("{t:?}")
    } else {
        "a payload of another type".to_string()
    }
}

thread_local! {
    /// the references of the last few scenarios (a scenario and its two companions alternate); for the inexact family the
    /// reference is the scenario's FIRST fault-free result, so it must survive the companions' turns
    static REFERENCE: std::cell::RefCell<Vec<(Scenario, Vec<Part>, Vec<Part>, i32)>> = const { std::cell::RefCell::new(Vec::new()) };
    /// when set, every case executed on this thread is logged, in order
    static TRACE: std::cell::RefCell<Option<Vec<Case>>> = const { std::cell::RefCell::new(None) };
}

/// Execute one case against the real code.  A pure function of `case` - unless the drivers keep state between
/// calls, which is what the history path in main() is for.
pub fn run_case(case: &Case) -> Outcome {
    TRACE.with(|t| {
        if let Some(v) = t.borrow_mut().as_mut() {
            v.push(case.clone());
        }
    });
    let sc = &case.sc.resolved();
    let sc_in = &Scenario { variant: 1, ..case.sc.clone() }.resolved();
    let mut fx = build_fx(sc);
    let fx_in = build_fx(sc_in);
    // the reference of a scenario is computed once for all its cases (they run back to back on one thread)
    let (want, want_inner, scale) = REFERENCE.with(|m| {
        let mut m = m.borrow_mut();
        match m.iter().find(|e| e.0 == *sc) {
            Some((_, a, b, k)) => (a.clone(), b.clone(), *k),
            None => {
                // exact family: symbolic derivatives.  Inexact family: the result of a fault-free call of this very variant
                // at scale 0 - every other call of the scenario (other variant, residue runs) must reproduce it bit for bit
                let unscaled = if sc.inexact {
                    let c0 = Ctx::new(Plan::None, 0);
                    match catch_unwind(AssertUnwindSafe(|| call(&sc.driver, &sc.scalar, &sc.dim, &fx, None, case.fallible, &c0))) {
                        Ok(Ok(parts)) => parts,
                        _ => vec![(SHAPE, Some(u64::MAX), None)], // a failing base call: every comparison fails and is reported
                    }
                } else {
                    expected(sc, &fx)
                };
                let k = scale_for(sc, &unscaled);
                let (a, b) = (apply_scale(&unscaled, k, sc.scalar == "f32"), expected(sc_in, &fx_in));
                if m.len() >= 4 {
                    m.remove(0);
                }
                m.push((sc.clone(), a.clone(), b.clone(), k));
                (a, b, k)
            }
        }
    });
    fx.scale = scale;
    let token = mix(sc.seed, 0x70CE) | 1;
    let ctx = Ctx::new(case.plan, token);
    let reenter = matches!(case.plan, Plan::ReenterEarly | Plan::ReenterLate);
    let res = catch_unwind(AssertUnwindSafe(|| call(&sc.driver, &sc.scalar, &sc.dim, &fx, if reenter { Some(&fx_in) } else { None }, case.fallible, &ctx)));
    let calls = ctx.calls.get();
    // hand-built results: the reference is what the closure put into the number it returned
    let want = if sc.hand { ctx.built.borrow().clone().unwrap_or(want) } else { want };
    let mut out = Outcome {
        kind: String::new(), calls,
        function: if sc.hand { "(the closure returns a number built by hand with the type's `new`: the parts listed as reference; absent parts count as zeros)".to_string() } else { format!("{}{}", if sc.cancel { "[cancelling family of] " } else if sc.inexact { "[inexact family of] " } else { "" }, fx.polys.iter().map(|p| p.show()).collect::<Vec<_>>().join(" ; ")) },
        point: format!("a={:?} b={:?} ijk={:?} result scaled by 2^{}", fx.a, fx.b, fx.ijk, fx.scale), got: vec![], want: want.iter().map(show_part).collect(), violation: None,
    };
    let name = format!("{}{}", if case.fallible { "try_" } else { "" }, sc.driver);
    match (&case.plan, res) {
        (Plan::None | Plan::ReenterEarly | Plan::ReenterLate, Ok(Ok(got))) => {
            out.kind = "ok".into();
            out.got = got.iter().map(show_part).collect();
            let what = if sc.hand { "what the closure returned" } else if sc.inexact { "the scenario's first fault-free result (scaled by the same power of two)" } else { "the exact value" };
            if let Some(d) = first_difference_as(&got, &want, what) {
                let why = if reenter { Class::Reentrancy } else { Class::WrongValue };
                out.violation = Some((why, format!("{name}: {d}{}", if reenter { " - after the closure called the same driver again" } else { "" })));
            } else if calls != 1 {
                out.violation = Some((Class::CallCount, format!("{name} invoked the closure {calls} times")));
            } else if *ctx.seen.borrow() != handed(&sc.scalar, &fx) {
                let (seen, want) = (ctx.seen.borrow().clone(), handed(&sc.scalar, &fx));
                let i = seen.iter().zip(&want).position(|(a, b)| a != b).unwrap_or(seen.len().min(want.len()));
                let raw = |p: Option<&Part>| p.map_or("nothing".to_string(), |p| format!("{:?}{}", f64::from_bits(p.0), match (p.1, p.2) { (Some(e), None) => format!(" + {:?}ε", f64::from_bits(e)), (Some(e), Some(e2)) => format!(" + [{:?}, {:?}]ε", f64::from_bits(e), f64::from_bits(e2)), _ => String::new() }));
                out.violation = Some((Class::WrongPoint, format!("{name} evaluated its closure at another point than the one it was given: the real part of variable {i} handed to the closure is {}, the caller passed {} ({} variables handed over, {} passed)", raw(seen.get(i)), raw(want.get(i)), seen.len(), want.len())));
            } else if reenter {
                match ctx.inner.borrow().as_ref() {
                    Some(Ok(inner)) => {
                        if let Some(d) = first_difference(inner, &want_inner) {
                            out.violation = Some((Class::Reentrancy, format!("the inner call of {name} made from inside the closure: {d}")));
                        }
                    }
                    other => out.violation = Some((Class::Reentrancy, format!("the inner call of {name} made from inside the closure did not return a result: {other:?}"))),
                }
            }
        }
        (Plan::ErrEarly | Plan::ErrLate, Ok(Err(t))) => {
            out.kind = "err".into();
            if t != Token(token) {
                out.violation = Some((Class::ErrorLost, format!("{name} returned another error ({t:?}) than the one its closure returned ({:?})", Token(token))));
            } else if calls != 1 {
                out.violation = Some((Class::CallCount, format!("{name} invoked the closure {calls} times")));
            }
        }
        (Plan::ErrEarly | Plan::ErrLate, Ok(Ok(got))) => {
            out.kind = "ok".into();
            out.got = got.iter().map(show_part).collect();
            out.violation = Some((Class::ErrorLost, format!("the closure returned Err but {name} returned Ok({:?} ...) (closure invoked {calls} times)", out.got.first())));
        }
        (Plan::PanicEarly | Plan::PanicLate, Err(p)) => {
            out.kind = "panic".into();
            if p.downcast_ref::<Token>() != Some(&Token(token)) {
                out.violation = Some((Class::PanicLost, format!("the closure panicked with {:?} but what arrived at the caller of {name} is {}", Token(token), panic_text(&*p))));
            } else if calls != 1 {
                out.violation = Some((Class::CallCount, format!("{name} invoked the closure {calls} times")));
            }
        }
        (Plan::PanicEarly | Plan::PanicLate, Ok(r)) => {
            out.kind = "ok".into();
            out.violation = Some((Class::PanicLost, format!("the closure panicked but {name} returned {} (closure invoked {calls} times)", if r.is_ok() { "Ok" } else { "Err" })));
        }
        (_, Ok(Err(t))) => {
            out.kind = "err".into();
            out.violation = Some((Class::UnexpectedFailure, format!("{name} returned Err({t:?}) although its closure succeeded")));
        }
        (_, Err(p)) => {
            out.kind = "panic".into();
            out.violation = Some((Class::UnexpectedFailure, format!("{name} panicked although its closure did not: {}", panic_text(&*p))));
        }
    }
    out
}

const FAULT_PLANS: &[Plan] = &[Plan::ErrEarly, Plan::ErrLate, Plan::PanicEarly, Plan::PanicLate, Plan::ReenterEarly, Plan::ReenterLate];

/// All cases of the scenario with index `i`, in execution order: each variant fault-free, then every plan, each
/// followed by the fault-free call again (a fault must leave nothing behind).  Deterministic in (seed, i).
fn cases_for_value(seed: u64, i: u64, thorough: bool) -> Vec<Case> {
    let mut r = Rng::new(mix(seed, i));
    // walk the configuration table systematically, seeds on top
    let driver = DRIVERS[(i as usize) % DRIVERS.len()];
    let scalar = SCALARS[(i as usize / DRIVERS.len()) % SCALARS.len()];
    let two = matches!(driver, "jacobian" | "partial_hessian");
    // the large static shape only for jacobian: partial_hessian's 100 statically sized hyper-dual inputs of 2 500 entries each would not fit a stack
    let dim = if two { if driver == "jacobian" && r.chance(15) { BIG_STATIC2 } else { DIMS2[r.below(DIMS2.len())] } } else { DIMS1[r.below(DIMS1.len())] };
    let dynlen = |r: &mut Rng| if r.chance(if thorough { 60 } else { 25 }) { [16, 17, 33, 64, 65][r.below(5)] } else { 1 + r.below(if thorough { 12 } else { 8 }) };
    // lengths at and around powers of two up to 1025 (strip-mined or blocked code paths), where that is affordable: the
    // inputs of a gradient, one side of a jacobian; and the empty input vector
    let biglen = |r: &mut Rng| [127, 128, 129, 255, 257, 513, 1025][r.below(7)];
    let (mut m, mut n) = (1, 1);
    match driver {
        "gradient" | "hessian" => {
            n = static_len(dim).unwrap_or_else(|| dynlen(&mut r));
            if dim == "Dyn" && r.chance(40) {
                n = 0;
            } else if dim == "Dyn" && driver == "gradient" && r.chance(12) {
                n = biglen(&mut r);
            }
        }
        "third_partial_derivative_vec" => n = if r.chance(60) { [16, 17, 33][r.below(3)] } else { 1 + r.below(12) },
        "jacobian" | "partial_hessian" => {
            let (a, b) = dim.split_once('x').unwrap();
            m = static_len(a).unwrap_or_else(|| dynlen(&mut r));
            n = static_len(b).unwrap_or_else(|| dynlen(&mut r));
            if driver == "jacobian" && dim == "DynxDyn" && r.chance(15) {
                if r.chance(500) {
                    m = biglen(&mut r);
                    n = 1 + r.below(3);
                } else {
                    n = biglen(&mut r);
                    m = 1 + r.below(3);
                }
            }
        }
        _ => {}
    }
    let ijk = if driver == "third_partial_derivative_vec" {
        // every pattern of coinciding indices
        match r.below(6) {
            0 => { let a = r.below(n); [a, a, a] }
            1 => { let (a, b) = (r.below(n), r.below(n)); [a, a, b] }
            2 => { let (a, b) = (r.below(n), r.below(n)); [a, b, a] }
            3 => { let (a, b) = (r.below(n), r.below(n)); [b, a, a] }
            _ => [r.below(n), r.below(n), r.below(n)],
        }
    } else {
        [0, 0, 0]
    };
    let sc = Scenario { driver: driver.into(), scalar: scalar.into(), dim: if two || matches!(driver, "gradient" | "hessian") { dim.into() } else { "-".into() }, n, m, seed: r.next(), simple: r.chance(40), ijk, variant: 0, scale_mode: [0, 0, 0, 0, 0, 0, 1, 1, 2, 0][r.below(10)], inexact: false, cancel: false, hand: false };
    let sc = if r.chance(250) { Scenario { inexact: true, cancel: r.chance(350), simple: false, scale_mode: [0, 1, 1][r.below(3)], ..sc } } else { sc };
    // one scenario in eight: the closure returns a hand-built number
    let sc = if !sc.inexact && r.chance(125) { Scenario { hand: true, scale_mode: 0, ..sc } } else { sc };
    let mut cases = vec![];
    for fallible in [false, true] {
        cases.push(Case { sc: sc.clone(), fallible, plan: Plan::None });
        for plan in FAULT_PLANS {
            if !fallible && matches!(plan, Plan::ErrEarly | Plan::ErrLate) {
                continue;
            }
            cases.push(Case { sc: sc.clone(), fallible, plan: *plan });
            // what a fault must not influence: the next call with another function, point and indices, the one after
            // it with other (dynamic) dimensions, and the scenario's own call again
            cases.push(Case { sc: Scenario { variant: 1, ..sc.clone() }, fallible, plan: Plan::None });
            if sc.dim.contains("Dyn") || sc.driver == "third_partial_derivative_vec" {
                cases.push(Case { sc: Scenario { variant: 2, ..sc.clone() }, fallible, plan: Plan::None });
            }
            cases.push(Case { sc: sc.clone(), fallible, plan: Plan::None });
        }
    }
    cases
}

fn history_hash(case: &Case, o: &Outcome) -> u64 {
    let mut h = 0xcbf29ce484222325u64;
    let mut feed = |x: u64| {
        h ^= x;
        h = h.wrapping_mul(0x100000001b3);
    };
    for b in case.sc.driver.bytes().chain(case.sc.scalar.bytes()).chain(case.sc.dim.bytes()).chain(o.kind.bytes()) {
        feed(b as u64);
    }
    feed(case.sc.n as u64 * 31 + case.sc.m as u64);
    feed(case.fallible as u64);
    feed(case.plan as u64 + 7);
    feed(o.calls as u64);
    feed(case.sc.seed);
    h
}

#[derive(Default)]
struct Stats {
    values: u64,
    cases: u64,
    faulted_cases: u64,
    components_compared: u64,
    fired: BTreeMap<String, u64>,
    configs: HashSet<String>,
    drivers: BTreeMap<String, u64>,
    distinct_faulted: HashSet<u64>,
    distinct_all: HashSet<u64>,
    digest: u64,
    samples: Vec<serde_json::Value>,
    violations: BTreeMap<String, (u64, usize, Case, Outcome, u64)>,
}

fn finding_key(class: &Class, case: &Case) -> String {
    format!("{:?}:{}{}", class, if case.fallible { "try_" } else { "" }, case.sc.driver)
}

fn run_range(seed: u64, from: u64, to: u64, thorough: bool) -> Stats {
    let mut st = Stats::default();
    for i in from..to {
        let cases = cases_for_value(seed, i, thorough);
        st.values += 1;
        for (ci, case) in cases.iter().enumerate() {
            let o = run_case(case);
            st.cases += 1;
            st.components_compared += o.want.len() as u64;
            *st.drivers.entry(format!("{}{}", if case.fallible { "try_" } else { "" }, case.sc.driver)).or_default() += 1;
            st.configs.insert(format!("{}/{}/{}", case.sc.driver, case.sc.scalar, case.sc.dim));
            let h = history_hash(case, &o);
            st.digest = st.digest.wrapping_add(h.wrapping_mul(0x9E3779B97F4A7C15) ^ (h >> 7));
            st.distinct_all.insert(h);
            if case.plan != Plan::None {
                st.faulted_cases += 1;
                st.distinct_faulted.insert(h);
                *st.fired.entry(format!("{:?}", case.plan)).or_default() += 1;
            }
            if st.samples.len() < 4 && case.plan != Plan::None && (i - from) % 7 == 0 && ci % 5 == 1 {
                st.samples.push(serde_json::json!({ "case": case, "function": o.function, "point": o.point, "outcome": o.kind, "closure_invocations": o.calls, "reference": o.want }));
            }
            if let Some((class, _)) = &o.violation {
                let key = finding_key(class, case);
                if st.violations.len() < 256 && !st.violations.contains_key(&key) {
                    st.violations.insert(key, (i, ci, case.clone(), o, from));
                }
            }
        }
    }
    st
}

fn same_class(case: &Case, class: &Class) -> Option<Outcome> {
    let o = run_case(case);
    match &o.violation {
        Some((c, _)) if c == class => Some(o),
        _ => None,
    }
}

fn in_fresh_thread<T: Send + 'static>(f: impl FnOnce() -> T + Send + 'static) -> T {
    std::thread::Builder::new().stack_size(256 << 20).spawn(f).expect("spawn").join().expect("harness thread panicked")
}

fn trace_for(seed: u64, thorough: bool, from: u64, vi: u64, ci: usize) -> Vec<Case> {
    in_fresh_thread(move || {
        TRACE.with(|t| *t.borrow_mut() = Some(vec![]));
        for v in from..=vi {
            let cases = cases_for_value(seed, v, thorough);
            let upto = if v == vi { (ci + 1).min(cases.len()) } else { cases.len() };
            for c in &cases[..upto] {
                run_case(c);
            }
        }
        TRACE.with(|t| t.borrow_mut().take()).unwrap_or_default()
    })
}

/// set by --isolated: every replay attempt runs in a process of its own (state shared between threads - a static
/// behind a lock - survives a fresh thread, not a fresh process)
static ISOLATED: std::sync::atomic::AtomicBool = std::sync::atomic::AtomicBool::new(false);
static VERIF_DIR: std::sync::OnceLock<String> = std::sync::OnceLock::new();
static TMP_COUNTER: std::sync::atomic::AtomicU64 = std::sync::atomic::AtomicU64::new(0);

fn sequence_violates_in_fresh_process(seq: &[Case], class: &Class) -> Option<Outcome> {
    let dir = format!("{}/replays", VERIF_DIR.get().map(String::as_str).unwrap_or("/verif"));
    let _ = std::fs::create_dir_all(&dir);
    let path = format!("{dir}/tmp-{}-{}.json", std::process::id(), TMP_COUNTER.fetch_add(1, std::sync::atomic::Ordering::Relaxed));
    let rf = ReplayFile {
        property: "C05".into(), class: class.clone(), message: String::new(), seed: 0, value_index: 0, case_index: 0, case: seq.last()?.clone(), sequence: Some(seq.to_vec()), minimised_from: None, minimise_steps: 0, function: String::new(), point: String::new(), got: vec![], reference: vec![], finding_key: String::new(),
    };
    std::fs::write(&path, serde_json::to_string(&rf).ok()?).ok()?;
    let out = std::process::Command::new(std::env::current_exe().ok()?).args(["--replay", &path, "--verif-dir", VERIF_DIR.get().map(String::as_str).unwrap_or("/verif")]).output().ok()?;
    let _ = std::fs::remove_file(&path);
    let text = String::from_utf8_lossy(&out.stdout);
    let tag = format!("  violation: {class:?}: ");
    let msg = text.lines().find_map(|l| l.strip_prefix(&tag))?;
    if out.status.code() != Some(1) {
        return None;
    }
    Some(Outcome { kind: String::new(), calls: 0, function: String::new(), point: String::new(), got: vec![], want: vec![], violation: Some((class.clone(), msg.to_string())) })
}

fn sequence_violates(seq: &[Case], class: &Class) -> Option<Outcome> {
    if ISOLATED.load(std::sync::atomic::Ordering::Relaxed) {
        return sequence_violates_in_fresh_process(seq, class);
    }
    let (seq, class) = (seq.to_vec(), class.clone());
    in_fresh_thread(move || {
        let mut last = None;
        for c in &seq {
            last = Some(run_case(c));
        }
        last.filter(|o| matches!(&o.violation, Some((c, _)) if *c == class))
    })
}

fn minimise_sequence(mut seq: Vec<Case>, class: &Class) -> (Vec<Case>, Outcome, u32) {
    let mut best = sequence_violates(&seq, class).expect("minimise_sequence called on a passing history");
    let mut steps = 0;
    let mut budget = 600;
    let mut k = 2;
    while k < seq.len() && budget > 0 {
        let cand = seq[seq.len() - k..].to_vec();
        budget -= 1;
        if let Some(o) = sequence_violates(&cand, class) {
            seq = cand;
            best = o;
            steps += 1;
            break;
        }
        k *= 2;
    }
    let mut chunk = (seq.len() - 1).max(1) / 2;
    while chunk >= 1 && budget > 0 {
        let mut start = 0;
        let mut removed_any = false;
        while start + chunk <= seq.len() - 1 && budget > 0 {
            let mut cand = seq.clone();
            cand.drain(start..start + chunk);
            budget -= 1;
            if let Some(o) = sequence_violates(&cand, class) {
                seq = cand;
                best = o;
                steps += 1;
                removed_any = true;
            } else {
                start += chunk;
            }
        }
        if chunk == 1 && !removed_any {
            break;
        }
        chunk = if removed_any { chunk.min((seq.len() - 1).max(1)) } else { chunk / 2 };
    }
    let cand: Vec<Case> = seq.iter().map(|c| Case { sc: Scenario { simple: true, ..c.sc.clone() }, ..c.clone() }).collect();
    if cand != seq {
        if let Some(o) = sequence_violates(&cand, class) {
            seq = cand;
            best = o;
            steps += 1;
        }
    }
    (seq, best, steps)
}

/// Shrink a failing case while the same class of violation persists: simplest function and point, plain f64,
/// fewer variables (dynamic dimensions), the infallible variant.
fn minimise(mut case: Case, class: &Class) -> (Case, Outcome, u32) {
    let mut best = same_class(&case, class).expect("minimise called on a passing case");
    let mut steps = 0;
    let mut cands: Vec<Case> = vec![];
    let with_sc = |c: &Case, f: &dyn Fn(&mut Scenario)| {
        let mut s = c.sc.clone();
        f(&mut s);
        Case { sc: s, ..c.clone() }
    };
    cands.push(with_sc(&case, &|s| s.simple = true));
    cands.push(with_sc(&case, &|s| s.scale_mode = 0));
    cands.push(with_sc(&case, &|s| s.scalar = "f64".into()));
    for k in 1..8usize {
        cands.push(with_sc(&case, &move |s| {
            if s.dim == "Dyn" || s.driver == "third_partial_derivative_vec" {
                if k < s.n && s.ijk.iter().all(|x| *x < k) {
                    s.n = k;
                }
            }
            if s.dim == "DynxDyn" {
                s.n = s.n.min(k);
                s.m = s.m.min(k);
            }
        }));
    }
    for cand in cands {
        // transformations are re-applied to the current best
        let cand = Case { sc: Scenario { scale_mode: cand.sc.scale_mode.min(case.sc.scale_mode), simple: cand.sc.simple || case.sc.simple, scalar: if cand.sc.scalar == "f64" { "f64".into() } else { case.sc.scalar.clone() }, n: cand.sc.n.min(case.sc.n), m: cand.sc.m.min(case.sc.m), ..case.sc.clone() }, ..case.clone() };
        if cand != case {
            if let Some(o) = same_class(&cand, class) {
                case = cand;
                best = o;
                steps += 1;
            }
        }
    }
    (case, best, steps)
}

#[derive(Serialize, Deserialize)]
struct ReplayFile {
    property: String,
    class: Class,
    message: String,
    seed: u64,
    value_index: u64,
    case_index: usize,
    case: Case,
    #[serde(default)]
    sequence: Option<Vec<Case>>,
    minimised_from: Option<Case>,
    minimise_steps: u32,
    function: String,
    point: String,
    got: Vec<String>,
    reference: Vec<String>,
    finding_key: String,
}

fn known_findings(path: &str) -> Vec<(String, String)> {
    let Ok(txt) = std::fs::read_to_string(path) else { return vec![] };
    let Ok(v) = serde_json::from_str::<serde_json::Value>(&txt) else { return vec![] };
    v.get("known").and_then(|k| k.as_array()).map(|a| {
        a.iter()
            .filter(|e| e.get("property").and_then(|p| p.as_str()) == Some("C05"))
            .filter_map(|e| Some((e.get("key")?.as_str()?.to_string(), e.get("what").and_then(|w| w.as_str()).unwrap_or("").to_string())))
            .collect()
    }).unwrap_or_default()
}

fn arg(args: &[String], name: &str) -> Option<String> {
    args.iter().position(|a| a == name).and_then(|i| args.get(i + 1).cloned())
}

fn main() {
    let args: Vec<String> = std::env::args().collect();
    let verif_dir = arg(&args, "--verif-dir").unwrap_or_else(|| "/verif".to_string());
    let _ = VERIF_DIR.set(verif_dir.clone());
    let isolated = args.iter().any(|a| a == "--isolated");
    ISOLATED.store(isolated, std::sync::atomic::Ordering::Relaxed);
    // panics are part of the simulation (the closure's, and the crate's own under a mutant): silent, except the harness's own
    std::panic::set_hook(Box::new(|info| {
        let msg = info.payload().downcast_ref::<&str>().map(|s| s.to_string()).or_else(|| info.payload().downcast_ref::<String>().cloned()).unwrap_or_default();
        static SHOWN: std::sync::atomic::AtomicU32 = std::sync::atomic::AtomicU32::new(0);
        if msg.contains("harness") || (std::env::var("VERIF_DEBUG_PANICS").is_ok() && !msg.is_empty() && SHOWN.fetch_add(1, std::sync::atomic::Ordering::Relaxed) < 8) {
            eprintln!("panic: {msg} at {:?}", info.location().map(|l| format!("{}:{}", l.file(), l.line())));
        }
    }));
    if let Some(path) = arg(&args, "--replay") {
        let txt = std::fs::read_to_string(&path).unwrap_or_else(|e| { eprintln!("cannot read {path}: {e}"); std::process::exit(2) });
        let rf: ReplayFile = serde_json::from_str(&txt).unwrap_or_else(|e| { eprintln!("bad replay file: {e}"); std::process::exit(2) });
        if let Some(seq) = &rf.sequence {
            println!("replay of {path}: a history of {} driver calls on one thread", seq.len());
            for c in &seq[..seq.len().saturating_sub(1)] {
                let o = run_case(c);
                println!("  step: {}{} {}/{} n={} m={} {:?} -> {}", if c.fallible { "try_" } else { "" }, c.sc.driver, c.sc.scalar, c.sc.dim, c.sc.n, c.sc.m, c.plan, o.kind);
            }
        }
        let o = run_case(&rf.case);
        let c = &rf.case;
        println!("replay of {path}: {}{} {}/{} n={} m={} ijk={:?} plan {:?}", if c.fallible { "try_" } else { "" }, c.sc.driver, c.sc.scalar, c.sc.dim, c.sc.n, c.sc.m, c.sc.ijk, c.plan);
        println!("  function : {}", o.function);
        println!("  point    : {}", o.point);
        println!("  outcome  : {} (closure invoked {} times)", o.kind, o.calls);
        println!("  got      : {}", o.got.join(" "));
        println!("  reference: {}", o.want.join(" "));
        match o.violation {
            Some((c, m)) => {
                println!("  violation: {c:?}: {m}");
                println!("VIOLATION property=C05 replay={path}");
                std::process::exit(1);
            }
            None => {
                println!("  no violation on this tree");
                std::process::exit(0);
            }
        }
    }
    let tier = arg(&args, "--tier").or_else(|| std::env::var("VERIF_TIER").ok()).unwrap_or_else(|| "quick".to_string());
    let thorough = tier == "thorough";
    let seed: u64 = arg(&args, "--seed").or_else(|| std::env::var("VERIF_SEED").ok()).and_then(|s| s.trim().parse().ok()).unwrap_or(20261002);
    let values: u64 = arg(&args, "--values").and_then(|s| s.parse().ok()).unwrap_or(if thorough { 3_000_000 } else { 60_000 });
    let threads: u64 = if isolated { 1 } else { arg(&args, "--threads").and_then(|s| s.parse().ok()).unwrap_or_else(|| std::thread::available_parallelism().map(|n| n.get() as u64).unwrap_or(4)) };
    let evidence_path = arg(&args, "--evidence").unwrap_or_else(|| format!("{verif_dir}/evidence/C05.json"));
    println!("C05 closure-seam simulation: seed={seed} tier={tier} scenarios={values} threads={threads}");
    let t0 = Instant::now();

    let run_all = |nthreads: u64, n: u64| -> Stats {
        let chunk = (n + nthreads - 1) / nthreads;
        let handles: Vec<_> = (0..nthreads)
            .map(|t| {
                let (from, to) = (t * chunk, ((t + 1) * chunk).min(n));
                std::thread::Builder::new().stack_size(256 << 20).spawn(move || run_range(seed, from, to.max(from), thorough)).expect("spawn worker")
            })
            .collect();
        let mut total = Stats::default();
        for h in handles {
            let s = h.join().expect("harness thread panicked");
            total.values += s.values;
            total.cases += s.cases;
            total.faulted_cases += s.faulted_cases;
            total.components_compared += s.components_compared;
            total.digest = total.digest.wrapping_add(s.digest);
            for (k, v) in s.fired {
                *total.fired.entry(k).or_default() += v;
            }
            for (k, v) in s.drivers {
                *total.drivers.entry(k).or_default() += v;
            }
            total.configs.extend(s.configs);
            total.distinct_faulted.extend(s.distinct_faulted);
            total.distinct_all.extend(s.distinct_all);
            if total.samples.len() < 4 {
                total.samples.extend(s.samples.into_iter().take(2));
            }
            for (k, v) in s.violations {
                let better = total.violations.get(&k).map_or(true, |b| (v.0, v.1) < (b.0, b.1));
                if better {
                    total.violations.insert(k, v);
                }
            }
        }
        total
    };

    let st = run_all(threads, values);
    let main_wall = t0.elapsed().as_secs_f64();
    let det_values = (values / 4).clamp(1, 3000);
    let d1 = if isolated { Stats::default() } else { run_all(threads, det_values) };
    let d2 = if isolated { Stats::default() } else { run_all(3, det_values) };
    let deterministic = d1.digest == d2.digest && d1.cases == d2.cases && d1.violations.keys().eq(d2.violations.keys());
    if !isolated && !deterministic && st.violations.is_empty() && d1.violations.is_empty() && d2.violations.is_empty() {
        eprintln!("HARNESS ERROR: two executions of seed {seed} differ (digest {:x} vs {:x}, cases {} vs {}): behaviour depends on the history of the thread", d1.digest, d2.digest, d1.cases, d2.cases);
        std::process::exit(2);
    }

    let mut exit = 0;
    let mut known_hits: Vec<String> = vec![];
    let known = known_findings(&format!("{verif_dir}/known_findings.json"));
    let mut found: Vec<(&String, &(u64, usize, Case, Outcome, u64))> = st.violations.iter().collect();
    found.sort_by_key(|(_, v)| (v.0, v.1));
    let mut unknown_keys: Vec<String> = vec![];
    for (key, (vi, ci, case, o, worker_from)) in found {
        if let Some((_, what)) = known.iter().find(|(k, _)| k == key) {
            println!("KNOWN-FINDING: property=C05 {key}: {what}");
            known_hits.push(key.clone());
            continue;
        }
        unknown_keys.push(key.clone());
        if exit == 1 {
            continue;
        }
        let (class, msg) = o.violation.clone().unwrap();
        // does the case fail on its own?  Asked of a fresh process, so that neither thread-local nor global state left by
        // the batch can answer for it.
        let alone = sequence_violates_in_fresh_process(std::slice::from_ref(case), &class).is_some();
        let dir = format!("{verif_dir}/replays");
        let _ = std::fs::create_dir_all(&dir);
        let path = format!("{dir}/C05-seed{seed}-v{vi}-c{ci}.json");
        if !alone {
            let full = trace_for(seed, thorough, *worker_from, *vi, *ci);
            let confirmed = sequence_violates(&full, &class).is_some();
            let minimised = if confirmed { Some(minimise_sequence(full.clone(), &class)) } else { None };
            let replays = minimised.as_ref().map_or(false, |(seq, _, _)| isolated || sequence_violates_in_fresh_process(seq, &class).is_some());
            if !replays {
                if !isolated {
                    // state shared between threads?  Search again with ONE worker in a process of its own, in which every
                    // replay attempt is a fresh process too: the global order of operations is then deterministic.
                    eprintln!("the violation {key} seen at scenario {vi} case {ci} reproduces neither alone nor from the history of its worker: searching again with one worker and process-isolated replays ...");
                    let child = std::process::Command::new(std::env::current_exe().expect("current_exe"))
                        .args(["--isolated", "--tier", &tier, "--seed", &seed.to_string(), "--values", &(st.violations.values().map(|v| v.0).max().unwrap_or(*vi) + 1).to_string(), "--verif-dir", &verif_dir, "--evidence", &format!("{verif_dir}/replays/isolated-evidence.json")])
                        .output();
                    if let Ok(out) = child {
                        let text = String::from_utf8_lossy(&out.stdout);
                        if out.status.code() == Some(1) && text.contains("VIOLATION property=C05") {
                            for l in text.lines().filter(|l| l.starts_with("violation class") || l.starts_with("  ") || l.starts_with("VIOLATION")) {
                                println!("{l}");
                            }
                            println!("  (found by the process-isolated search: the state involved is shared between threads)");
                            exit = 1;
                            continue;
                        }
                    }
                }
                eprintln!("HARNESS ERROR: the violation {key} seen at scenario {vi} case {ci} reproduces neither alone nor from the history of its worker (scenarios {worker_from}..={vi})");
                std::process::exit(2);
            }
            let n0 = full.len();
            let (seq, mo, steps) = minimised.expect("confirmed above");
            let rf = ReplayFile {
                property: "C05".into(), class: class.clone(), message: mo.violation.as_ref().map(|v| v.1.clone()).unwrap_or(msg), seed, value_index: *vi, case_index: *ci,
                case: seq.last().unwrap().clone(), sequence: Some(seq.clone()), minimised_from: None, minimise_steps: steps, function: mo.function.clone(), point: mo.point.clone(),
                got: mo.got.clone(), reference: mo.want.clone(), finding_key: key.clone(),
            };
            std::fs::write(&path, serde_json::to_string_pretty(&rf).unwrap()).expect("cannot write replay file");
            println!("violation class {class:?} (scenario {vi}, case {ci}) that depends on what the thread executed before; history of {n0} driver calls minimised in {steps} steps to {}:", seq.len());
            for c in &seq {
                println!("    {}{} {}/{} n={} m={} {:?}", if c.fallible { "try_" } else { "" }, c.sc.driver, c.sc.scalar, c.sc.dim, c.sc.n, c.sc.m, c.plan);
            }
            println!("  {}", rf.message);
            println!("VIOLATION property=C05 replay={path}");
            exit = 1;
            continue;
        }
        let (mcase, mo, steps) = minimise(case.clone(), &class);
        let rf = ReplayFile {
            property: "C05".into(), class: class.clone(), message: mo.violation.as_ref().map(|v| v.1.clone()).unwrap_or(msg), seed, value_index: *vi, case_index: *ci,
            case: mcase.clone(), sequence: None, minimised_from: if mcase != *case { Some(case.clone()) } else { None }, minimise_steps: steps, function: mo.function.clone(), point: mo.point.clone(),
            got: mo.got.clone(), reference: mo.want.clone(), finding_key: key.clone(),
        };
        std::fs::write(&path, serde_json::to_string_pretty(&rf).unwrap()).expect("cannot write replay file");
        println!("violation class {class:?} in {}{} {}/{} (scenario {vi}, case {ci}, plan {:?}); minimised in {steps} steps: n={} m={} function {}", if case.fallible { "try_" } else { "" }, case.sc.driver, mcase.sc.scalar, mcase.sc.dim, case.plan, mcase.sc.n, mcase.sc.m, mo.function);
        println!("  {}", rf.message);
        println!("VIOLATION property=C05 replay={path}");
        exit = 1;
    }
    let violations = unknown_keys.len() as i32;
    let wall = t0.elapsed().as_secs_f64();
    let rule = "one case = one call of one of the twenty drivers of the real crate (driver x {f64, f32, nested Dual64, nested DualDVec64 with possibly absent inner parts} x static / dynamic / mixed dimensions x seeded integer polynomial(s) x seeded dyadic point) with a closure \
whose behaviour the simulator decides; per scenario, in this order on one thread: the infallible and the try_ variant fault-free, then EVERY plan of the table (closure returns Err before / after evaluating [try_ only], panics before / after evaluating, \
calls the same driver again before / after evaluating), each followed by three fault-free calls (a companion scenario with other function, point and indices; one with other dynamic dimensions; the scenario itself). One scenario in four uses the inexact family (products, quotients, sin, exp at non-dyadic points: reference = the first fault-free call of the scenario; scaling by a power of two must be exact). A third of those use the cancelling family (a linear form plus terms that are identically zero but evaluated in two orders: every higher derivative is rounding residue without symmetry). One exact scenario in eight has the closure return a number it builds by hand with the type's constructor, every derivative part present or absent independently of the others (reference: what it built, absent parts as zeros). One scenario in three scales its results by a power of two into the top or bottom binade of the float type. Every component of every result is compared bit for bit with exact symbolic derivatives. distinct_nontrivial = distinct \
(driver, variant, type configuration, dimensions, function/point seed, plan, outcome kind, closure invocations) among cases with a plan other than none";
    let ev = serde_json::json!({
        "property_id": "C05",
        "tier": tier,
        "seed": seed,
        "level": "fault_enumeration",
        "coverage": {
            "evaluations": st.cases,
            "distinct_nontrivial": st.distinct_faulted.len(),
            "rule": rule,
            "samples": st.samples,
            "scenarios": st.values,
            "cases_with_a_plan_other_than_none": st.faulted_cases,
            "fault_free_cases_incl_residue_runs": st.cases - st.faulted_cases,
            "result_components_compared_with_the_exact_reference": st.components_compared,
            "fault_kinds_fired": st.fired,
            "driver_variants_covered": st.drivers.len(),
            "cases_per_driver_variant": st.drivers,
            "distinct_driver_type_dimension_configurations": st.configs.len(),
            "distinct_histories_all": st.distinct_all.len(),
            "simulated_runs_per_hour": (st.cases as f64 / main_wall.max(1e-9) * 3600.0) as u64,
            "seeds_per_hour_at_this_tier": (3600.0 / wall.max(1e-9)) as u64,
            "simulated_time": "none: the code under test reads no clock and has no timers; a run is one driver call",
            "determinism_check": { "scenarios": det_values, "cases": d1.cases, "thread_partitions": [threads, 3], "digest_equal": deterministic, "digest": format!("{:016x}", d1.digest) },
            "real_components": ["the twenty driver functions (seeding, extraction, transposes)", "all dual arithmetic the closure performs (DualVec, Dual2Vec, HyperDualVec, Dual, Dual2, Dual3, HyperDual, HyperHyperDual over f64, f32 and Dual64)", "nalgebra static and dynamic storage"],
            "stubbed_components": ["the user closure's behaviour besides computing: returning an error, panicking, re-entering the driver - and when"],
            "invariants": ["K1 every component equals the exact reference in the documented position and orientation", "K2 try_ variants with a succeeding closure return what the infallible variants return", "K3 an Err of the closure comes back as that very error", "K4 a panic of the closure arrives with its payload and leaves nothing behind", "K5 a nested call of the same driver changes neither result", "K6 the closure is invoked exactly once", "K9 the closure is handed the point the caller passed: every real part, with all its components and the sign of a zero, bit for bit", "K8 a result the closure builds by hand comes back part for part, whatever combination of its derivative parts is present", "K7 (inexact family) multiplying the function by a power of two multiplies every component of the result by it, exactly, up to the top of the float range"],
            "known_findings_hit": known_hits,
            "unlisted_finding_keys": unknown_keys,
            "fault_table_enumerated_completely_per_scenario": true,
            "exhaustive": false
        },
        "assumptions": [
            "functions are polynomials with small integer coefficients at small dyadic points, so that every part of every result is exact in f64 and f32 and the reference needs no tolerance; zeros are compared without their sign",
            "the reference (exact.rs) differentiates symbolically and evaluates in exact dyadic arithmetic; it shares no code with the crate",
            "the plan table is enumerated completely per scenario; scenarios (configurations, functions, points, index patterns) are sampled with a seed",
            "thread interleavings are represented by nested calls at closure boundaries: the drivers share no state, so there is no finer interleaving to choose (the applicability audit flags a change that adds a lock, an atomic or a static)"
        ],
        "wall_s": wall,
        "violations": violations
    });
    if let Some(parent) = std::path::Path::new(&evidence_path).parent() {
        let _ = std::fs::create_dir_all(parent);
    }
    std::fs::write(&evidence_path, serde_json::to_string_pretty(&ev).unwrap()).expect("cannot write evidence");
    println!(
        "scenarios={} cases={} with_plan={} distinct_faulted_histories={} configurations={} components_compared={} wall={:.1}s deterministic={}",
        st.values, st.cases, st.faulted_cases, st.distinct_faulted.len(), st.configs.len(), st.components_compared, wall, deterministic
    );
    println!("plans executed: {:?}", st.fired);
    let _ = std::io::stdout().flush();
    std::process::exit(exit);
}
