//! The twenty drivers of num-dual called with a closure whose behaviour the simulator decides.
//! Everything here that computes is the crate's code: seeding, the dual arithmetic inside the closure (the
//! polynomial is evaluated with `*` and `+` on the numbers the driver hands over), extraction, orientation.

use crate::exact::{canon, eval_cancel, eval_generic, eval_inexact, Poly};
use crate::rng::Rng;
use nalgebra::allocator::Allocator;
use nalgebra::{Const, DefaultAllocator, Dim, Dyn, OMatrix, OVector};
use num_dual::*;
use serde::{Deserialize, Serialize};
use std::cell::{Cell, RefCell};

/// one number of a result: bits of the value (f32 widened exactly, zeros without sign) and, for nested subjects,
/// of its inner derivative part(s): one for T = Dual64, two for T = DualDVec64 (two directions)
pub type Part = (u64, Option<u64>, Option<u64>);
pub const SHAPE: u64 = u64::MAX;

#[derive(Clone, Debug, PartialEq)]
pub struct Token(pub u64);

#[derive(Clone, Copy, Debug, Serialize, Deserialize, PartialEq, Eq, Hash)]
pub enum Plan {
    None,
    /// the closure returns Err(token) without evaluating / after evaluating (try_ variants only)
    ErrEarly,
    ErrLate,
    /// the closure panics with the token as payload
    PanicEarly,
    PanicLate,
    /// the closure calls the same driver (other function, other point, same dimensions) before / after evaluating
    ReenterEarly,
    ReenterLate,
}

pub struct Ctx {
    pub plan: Plan,
    pub token: u64,
    pub calls: Cell<u32>,
    pub inner: RefCell<Option<Result<Vec<Part>, Token>>>,
    /// hand-built results: what the closure put into the number it returned, in the order the driver owes it
    pub built: RefCell<Option<Vec<Part>>>,
    /// the real parts (of type T, all their components, sign of zeros included) of what the closure was handed
    pub seen: RefCell<Vec<Part>>,
}

impl Ctx {
    pub fn new(plan: Plan, token: u64) -> Ctx {
        Ctx { plan, token, calls: Cell::new(0), inner: RefCell::new(None), built: RefCell::new(None), seen: RefCell::new(Vec::new()) }
    }
}

/// what the closure computes with: one polynomial per output, a point `a`, a direction `b` (nested subjects)
pub struct Fx {
    pub polys: Vec<Poly>,
    pub a: Vec<f64>,
    /// per variable: the direction(s) it carries when T is itself a dual number
    pub b: Vec<[f64; 2]>,
    pub ijk: [usize; 3],
    /// the closure multiplies its result by 2^scale (exact): puts the results into the top or bottom binade of the
    /// float type, where a careless (a + b) / 2 overflows
    pub scale: i32,
    /// which syntactic forms the closure uses to evaluate the polynomial (exact.rs)
    pub style: u64,
    /// second polynomial per output: when present the closure evaluates the inexact family (exact.rs: eval_inexact)
    pub inexact: Option<Vec<Poly>>,
    /// with `inexact`: the function whose higher derivatives cancel analytically (exact.rs: eval_cancel)
    pub cancel: bool,
    /// when present the closure does not compute at all: it returns a number it builds by hand with the type's `new`
    /// from seeded parts, any derivative part present or absent independently of the others (a user-defined
    /// primitive with hand-written derivatives does that); what the driver owes is exactly those parts
    pub hand: Option<u64>,
}

/// x * 2^k, by the scalar multiplication of the number type
fn scaled<X: DualNum<F>, F: DualNumFloat>(x: X, k: i32) -> X {
    if k == 0 {
        x
    } else {
        x * F::from_f64(2f64.powi(k)).expect("2^k as F")
    }
}

pub trait Subj<F>: DualNum<F> + Clone {
    const NESTED: bool;
    const F32: bool;
    fn make(a: f64, b: [f64; 2]) -> Self;
    fn part(&self) -> Part;
    /// like `part`, but with the signs of zeros as they are
    fn raw(&self) -> Part;
}
impl Subj<f64> for f64 {
    const NESTED: bool = false;
    const F32: bool = false;
    fn make(a: f64, _b: [f64; 2]) -> Self {
        a
    }
    fn part(&self) -> Part {
        (canon(*self), None, None)
    }
    fn raw(&self) -> Part {
        (self.to_bits(), None, None)
    }
}
impl Subj<f32> for f32 {
    const NESTED: bool = false;
    const F32: bool = true;
    fn make(a: f64, _b: [f64; 2]) -> Self {
        a as f32
    }
    fn part(&self) -> Part {
        (canon(*self as f64), None, None)
    }
    fn raw(&self) -> Part {
        ((*self as f64).to_bits(), None, None)
    }
}
impl Subj<f64> for Dual64 {
    const NESTED: bool = true;
    const F32: bool = false;
    fn make(a: f64, b: [f64; 2]) -> Self {
        Dual64::new(a, b[0])
    }
    fn part(&self) -> Part {
        (canon(self.re), Some(canon(self.eps)), None)
    }
    fn raw(&self) -> Part {
        (self.re.to_bits(), Some(self.eps.to_bits()), None)
    }
}
/// T with a dynamically sized, possibly absent derivative part of its own: two directions per variable; a variable
/// whose two directions are both zero is built as a constant (absent part)
impl Subj<f64> for DualDVec64 {
    const NESTED: bool = true;
    const F32: bool = false;
    fn make(a: f64, b: [f64; 2]) -> Self {
        if b == [0.0, 0.0] {
            DualDVec64::from_re(a)
        } else {
            DualDVec64::new(a, Derivative::some(nalgebra::DVector::from_vec(vec![b[0], b[1]])))
        }
    }
    fn part(&self) -> Part {
        let e = self.eps.clone().unwrap_generic(Dyn(2), Const::<1>);
        (canon(self.re), Some(canon(e[0])), Some(canon(e[1])))
    }
    fn raw(&self) -> Part {
        let e = self.eps.clone().unwrap_generic(Dyn(2), Const::<1>);
        (self.re.to_bits(), Some(e[0].to_bits()), Some(e[1].to_bits()))
    }
}

/// what the closure computes for output `idx`
fn evaluate<X: DualNum<F> + Clone, F: DualNumFloat>(fx: &Fx, idx: usize, vars: &[X]) -> X {
    let v = match &fx.inexact {
        Some(q) if fx.cancel => eval_cancel(&fx.polys[idx], &q[idx], vars, fx.style),
        Some(q) => eval_inexact(&fx.polys[idx], &q[idx], vars, fx.style),
        None => eval_generic(&fx.polys[idx], vars, fx.style),
    };
    scaled(v, fx.scale)
}

fn behave<R>(ctx: &Ctx, eval: impl FnOnce() -> R, reenter: impl FnOnce()) -> Result<R, Token> {
    ctx.calls.set(ctx.calls.get() + 1);
    match ctx.plan {
        Plan::None => Ok(eval()),
        Plan::ErrEarly => Err(Token(ctx.token)),
        Plan::ErrLate => {
            let _ = eval();
            Err(Token(ctx.token))
        }
        Plan::PanicEarly => std::panic::panic_any(Token(ctx.token)),
        Plan::PanicLate => {
            let _ = eval();
            std::panic::panic_any(Token(ctx.token))
        }
        Plan::ReenterEarly => {
            reenter();
            Ok(eval())
        }
        Plan::ReenterLate => {
            let r = eval();
            reenter();
            Ok(r)
        }
    }
}

fn infallible<R>(r: Result<R, Token>) -> R {
    r.unwrap_or_else(|t| std::panic::panic_any(t))
}

fn vec_parts<T: Subj<F>, F, D: Dim>(v: &OVector<T, D>, out: &mut Vec<Part>)
where
    DefaultAllocator: Allocator<D>,
{
    out.push((SHAPE, Some(v.nrows() as u64), None));
    out.extend(v.iter().map(|x| x.part()));
}
fn mat_parts<T: Subj<F>, F, R: Dim, C: Dim>(m: &OMatrix<T, R, C>, out: &mut Vec<Part>)
where
    DefaultAllocator: Allocator<R, C>,
{
    out.push((SHAPE, Some(((m.nrows() as u64) << 32) | m.ncols() as u64), None));
    for i in 0..m.nrows() {
        for j in 0..m.ncols() {
            out.push(m[(i, j)].part());
        }
    }
}
fn mkvec<T: Subj<F>, F, D: Dim>(a: &[f64], b: &[[f64; 2]]) -> OVector<T, D>
where
    DefaultAllocator: Allocator<D>,
{
    OVector::<T, D>::from_fn_generic(D::from_usize(a.len()), Const::<1>, |i, _| T::make(a[i], b[i]))
}


// ---- hand-built results -------------------------------------------------------------------------------------

fn hv<T: Subj<F>, F>(r: &mut Rng) -> T {
    let a = (r.below(17) as f64 - 8.0) / 2.0;
    let b = if r.chance(300) { [0.0, 0.0] } else { [(r.below(17) as f64 - 8.0) / 2.0, (r.below(17) as f64 - 8.0) / 2.0] };
    T::make(a, b)
}
/// a derivative part, present (any values, zeros included) or absent, and its entries row by row (zeros when absent)
fn hmat<T: Subj<F>, F: DualNumFloat, R: Dim, C: Dim>(r: &mut Rng, nr: usize, nc: usize, symmetric: bool) -> (Derivative<T, F, R, C>, Vec<Part>)
where
    DefaultAllocator: Allocator<R, C>,
{
    if r.chance(400) {
        return (Derivative::none(), vec![T::make(0.0, [0.0, 0.0]).part(); nr * nc]);
    }
    let zeros = r.chance(100);
    let mut m = OMatrix::<T, R, C>::from_fn_generic(R::from_usize(nr), C::from_usize(nc), |_, _| if zeros { T::make(0.0, [0.0, 0.0]) } else { hv::<T, F>(r) });
    if symmetric {
        for i in 0..nr {
            for j in 0..i {
                m[(i, j)] = m[(j, i)].clone();
            }
        }
    }
    let mut parts = Vec::with_capacity(nr * nc);
    for i in 0..nr {
        for j in 0..nc {
            parts.push(m[(i, j)].part());
        }
    }
    (Derivative::some(m), parts)
}
fn vmark(n: usize) -> Part {
    (SHAPE, Some(n as u64), None)
}
fn mmark(m: usize, n: usize) -> Part {
    (SHAPE, Some(((m as u64) << 32) | n as u64), None)
}
/// k scalar parts
fn hscalars<T: Subj<F>, F>(r: &mut Rng, k: usize) -> (Vec<T>, Vec<Part>) {
    let v: Vec<T> = (0..k).map(|_| hv::<T, F>(r)).collect();
    let p = v.iter().map(|x| x.part()).collect();
    (v, p)
}

macro_rules! reenter_with {
    ($ctx:expr, $inner:expr, $call:expr) => {
        || {
            if let Some(i) = $inner {
                let c2 = Ctx::new(Plan::None, 0);
                let r = $call(i, &c2);
                *$ctx.inner.borrow_mut() = Some(r);
            }
        }
    };
}

// ---- scalar drivers ---------------------------------------------------------------------------------------

pub fn first_derivative_case<T: Subj<F>, F: DualNumFloat>(fx: &Fx, inner: Option<&Fx>, fallible: bool, ctx: &Ctx) -> Result<Vec<Part>, Token> {
    let x = T::make(fx.a[0], fx.b[0]);
    let body = |v: Dual<T, F>| { ctx.seen.borrow_mut().push(v.re.raw()); behave(ctx, || match fx.hand { Some(h) => { let (t, p) = hscalars::<T, F>(&mut Rng::new(h), 2); *ctx.built.borrow_mut() = Some(p); Dual::new(t[0].clone(), t[1].clone()) } None => evaluate(fx, 0, &[v.clone()]) }, reenter_with!(ctx, inner, |i, c| first_derivative_case::<T, F>(i, None, fallible, c))) };
    let r = if fallible { try_first_derivative(body, x)? } else { first_derivative(|v| infallible(body(v)), x) };
    Ok(vec![r.0.part(), r.1.part()])
}
pub fn second_derivative_case<T: Subj<F>, F: DualNumFloat>(fx: &Fx, inner: Option<&Fx>, fallible: bool, ctx: &Ctx) -> Result<Vec<Part>, Token> {
    let x = T::make(fx.a[0], fx.b[0]);
    let body = |v: Dual2<T, F>| { ctx.seen.borrow_mut().push(v.re.raw()); behave(ctx, || match fx.hand { Some(h) => { let (t, p) = hscalars::<T, F>(&mut Rng::new(h), 3); *ctx.built.borrow_mut() = Some(p); Dual2::new(t[0].clone(), t[1].clone(), t[2].clone()) } None => evaluate(fx, 0, &[v.clone()]) }, reenter_with!(ctx, inner, |i, c| second_derivative_case::<T, F>(i, None, fallible, c))) };
    let r = if fallible { try_second_derivative(body, x)? } else { second_derivative(|v| infallible(body(v)), x) };
    Ok(vec![r.0.part(), r.1.part(), r.2.part()])
}
pub fn third_derivative_case<T: Subj<F>, F: DualNumFloat>(fx: &Fx, inner: Option<&Fx>, fallible: bool, ctx: &Ctx) -> Result<Vec<Part>, Token> {
    let x = T::make(fx.a[0], fx.b[0]);
    let body = |v: Dual3<T, F>| { ctx.seen.borrow_mut().push(v.re.raw()); behave(ctx, || match fx.hand { Some(h) => { let (t, p) = hscalars::<T, F>(&mut Rng::new(h), 4); *ctx.built.borrow_mut() = Some(p); Dual3::new(t[0].clone(), t[1].clone(), t[2].clone(), t[3].clone()) } None => evaluate(fx, 0, &[v.clone()]) }, reenter_with!(ctx, inner, |i, c| third_derivative_case::<T, F>(i, None, fallible, c))) };
    let r = if fallible { try_third_derivative(body, x)? } else { third_derivative(|v| infallible(body(v)), x) };
    Ok(vec![r.0.part(), r.1.part(), r.2.part(), r.3.part()])
}
pub fn second_partial_derivative_case<T: Subj<F>, F: DualNumFloat>(fx: &Fx, inner: Option<&Fx>, fallible: bool, ctx: &Ctx) -> Result<Vec<Part>, Token> {
    let (x, y) = (T::make(fx.a[0], fx.b[0]), T::make(fx.a[1], fx.b[1]));
    let body = |u: HyperDual<T, F>, v: HyperDual<T, F>| {
        ctx.seen.borrow_mut().extend([u.re.raw(), v.re.raw()]);
        behave(ctx, || match fx.hand { Some(h) => { let (t, p) = hscalars::<T, F>(&mut Rng::new(h), 4); *ctx.built.borrow_mut() = Some(p); HyperDual::new(t[0].clone(), t[1].clone(), t[2].clone(), t[3].clone()) } None => evaluate(fx, 0, &[u.clone(), v.clone()]) }, reenter_with!(ctx, inner, |i, c| second_partial_derivative_case::<T, F>(i, None, fallible, c)))
    };
    let r = if fallible { try_second_partial_derivative(body, x, y)? } else { second_partial_derivative(|u, v| infallible(body(u, v)), x, y) };
    Ok(vec![r.0.part(), r.1.part(), r.2.part(), r.3.part()])
}
pub fn third_partial_derivative_case<T: Subj<F>, F: DualNumFloat>(fx: &Fx, inner: Option<&Fx>, fallible: bool, ctx: &Ctx) -> Result<Vec<Part>, Token> {
    let (x, y, z) = (T::make(fx.a[0], fx.b[0]), T::make(fx.a[1], fx.b[1]), T::make(fx.a[2], fx.b[2]));
    let body = |u: HyperHyperDual<T, F>, v: HyperHyperDual<T, F>, w: HyperHyperDual<T, F>| {
        ctx.seen.borrow_mut().extend([u.re.raw(), v.re.raw(), w.re.raw()]);
        behave(ctx, || match fx.hand { Some(h) => { let (t, p) = hscalars::<T, F>(&mut Rng::new(h), 8); *ctx.built.borrow_mut() = Some(p); HyperHyperDual::new(t[0].clone(), t[1].clone(), t[2].clone(), t[3].clone(), t[4].clone(), t[5].clone(), t[6].clone(), t[7].clone()) } None => evaluate(fx, 0, &[u.clone(), v.clone(), w.clone()]) }, reenter_with!(ctx, inner, |i, c| third_partial_derivative_case::<T, F>(i, None, fallible, c)))
    };
    let r = if fallible { try_third_partial_derivative(body, x, y, z)? } else { third_partial_derivative(|u, v, w| infallible(body(u, v, w)), x, y, z) };
    Ok(vec![r.0.part(), r.1.part(), r.2.part(), r.3.part(), r.4.part(), r.5.part(), r.6.part(), r.7.part()])
}
pub fn third_partial_derivative_vec_case<T: Subj<F>, F: DualNumFloat>(fx: &Fx, inner: Option<&Fx>, fallible: bool, ctx: &Ctx) -> Result<Vec<Part>, Token> {
    let x: Vec<T> = fx.a.iter().zip(&fx.b).map(|(a, b)| T::make(*a, *b)).collect();
    let [i, j, k] = fx.ijk;
    let body = |v: &[HyperHyperDual<T, F>]| { ctx.seen.borrow_mut().extend(v.iter().map(|x| x.re.raw())); behave(ctx, || match fx.hand { Some(h) => { let (t, p) = hscalars::<T, F>(&mut Rng::new(h), 8); *ctx.built.borrow_mut() = Some(p); HyperHyperDual::new(t[0].clone(), t[1].clone(), t[2].clone(), t[3].clone(), t[4].clone(), t[5].clone(), t[6].clone(), t[7].clone()) } None => evaluate(fx, 0, v) }, reenter_with!(ctx, inner, |i2, c| third_partial_derivative_vec_case::<T, F>(i2, None, fallible, c))) };
    let r = if fallible { try_third_partial_derivative_vec(body, &x, i, j, k)? } else { third_partial_derivative_vec(|v| infallible(body(v)), &x, i, j, k) };
    Ok(vec![r.0.part(), r.1.part(), r.2.part(), r.3.part(), r.4.part(), r.5.part(), r.6.part(), r.7.part()])
}

// ---- vector drivers ---------------------------------------------------------------------------------------

pub fn gradient_case<T: Subj<F>, F: DualNumFloat, D: Dim>(fx: &Fx, inner: Option<&Fx>, fallible: bool, ctx: &Ctx) -> Result<Vec<Part>, Token>
where
    DefaultAllocator: Allocator<D> + Allocator<nalgebra::U1, D> + Allocator<D, D>,
{
    let x = mkvec::<T, F, D>(&fx.a, &fx.b);
    let body = |v: OVector<DualVec<T, F, D>, D>| {
        ctx.seen.borrow_mut().extend(v.iter().map(|x| x.re.raw()));
        behave(
            ctx,
            || match fx.hand {
                Some(h) => {
                    let mut r = Rng::new(h);
                    let n = fx.a.len();
                    let re = hv::<T, F>(&mut r);
                    let (eps, pe) = hmat::<T, F, D, nalgebra::U1>(&mut r, n, 1, false);
                    let mut p = vec![re.part(), vmark(n)];
                    p.extend(pe);
                    *ctx.built.borrow_mut() = Some(p);
                    DualVec::new(re, eps)
                }
                None => evaluate(fx, 0, &v.iter().cloned().collect::<Vec<_>>()),
            },
            reenter_with!(ctx, inner, |i, c| gradient_case::<T, F, D>(i, None, fallible, c)),
        )
    };
    let r = if fallible { try_gradient(body, x)? } else { gradient(|v| infallible(body(v)), x) };
    let mut out = vec![r.0.part()];
    vec_parts(&r.1, &mut out);
    Ok(out)
}
pub fn hessian_case<T: Subj<F>, F: DualNumFloat, D: Dim>(fx: &Fx, inner: Option<&Fx>, fallible: bool, ctx: &Ctx) -> Result<Vec<Part>, Token>
where
    DefaultAllocator: Allocator<D> + Allocator<nalgebra::U1, D> + Allocator<D, D>,
{
    let x = mkvec::<T, F, D>(&fx.a, &fx.b);
    let body = |v: OVector<Dual2Vec<T, F, D>, D>| {
        ctx.seen.borrow_mut().extend(v.iter().map(|x| x.re.raw()));
        behave(
            ctx,
            || match fx.hand {
                Some(h) => {
                    let mut r = Rng::new(h);
                    let n = fx.a.len();
                    let re = hv::<T, F>(&mut r);
                    let (v1, p1) = hmat::<T, F, nalgebra::U1, D>(&mut r, 1, n, false);
                    let (v2, p2) = hmat::<T, F, D, D>(&mut r, n, n, true);
                    let mut p = vec![re.part(), vmark(n)];
                    p.extend(p1);
                    p.push(mmark(n, n));
                    p.extend(p2);
                    *ctx.built.borrow_mut() = Some(p);
                    Dual2Vec::new(re, v1, v2)
                }
                None => evaluate(fx, 0, &v.iter().cloned().collect::<Vec<_>>()),
            },
            reenter_with!(ctx, inner, |i, c| hessian_case::<T, F, D>(i, None, fallible, c)),
        )
    };
    let r = if fallible { try_hessian(body, x)? } else { hessian(|v| infallible(body(v)), x) };
    let mut out = vec![r.0.part()];
    vec_parts(&r.1, &mut out);
    mat_parts(&r.2, &mut out);
    Ok(out)
}
/// M outputs, N inputs
pub fn jacobian_case<T: Subj<F>, F: DualNumFloat, M: Dim, N: Dim>(fx: &Fx, inner: Option<&Fx>, fallible: bool, ctx: &Ctx) -> Result<Vec<Part>, Token>
where
    DefaultAllocator: Allocator<M> + Allocator<N> + Allocator<M, N> + Allocator<N, M> + Allocator<nalgebra::U1, N> + Allocator<N, N>,
{
    let x = mkvec::<T, F, N>(&fx.a, &fx.b);
    let m = fx.polys.len();
    let body = |v: OVector<DualVec<T, F, N>, N>| {
        ctx.seen.borrow_mut().extend(v.iter().map(|x| x.re.raw()));
        behave(
            ctx,
            || match fx.hand {
                Some(h) => {
                    let mut r = Rng::new(h);
                    let n = fx.a.len();
                    let (mut res, mut jac) = (vec![vmark(m)], vec![mmark(m, n)]);
                    let out = OVector::<DualVec<T, F, N>, M>::from_fn_generic(M::from_usize(m), Const::<1>, |_, _| {
                        let re = hv::<T, F>(&mut r);
                        let (eps, pe) = hmat::<T, F, N, nalgebra::U1>(&mut r, n, 1, false);
                        res.push(re.part());
                        jac.extend(pe);
                        DualVec::new(re, eps)
                    });
                    res.extend(jac);
                    *ctx.built.borrow_mut() = Some(res);
                    out
                }
                None => {
                    let xs: Vec<_> = v.iter().cloned().collect();
                    OVector::<DualVec<T, F, N>, M>::from_fn_generic(M::from_usize(m), Const::<1>, |i, _| evaluate(fx, i, &xs))
                }
            },
            reenter_with!(ctx, inner, |i, c| jacobian_case::<T, F, M, N>(i, None, fallible, c)),
        )
    };
    let r = if fallible { try_jacobian(body, x)? } else { jacobian(|v| infallible(body(v)), x) };
    let mut out = vec![];
    vec_parts(&r.0, &mut out);
    mat_parts(&r.1, &mut out);
    Ok(out)
}
/// x has M entries, y has N entries; polys[0] is a polynomial in M + N variables (x first)
pub fn partial_hessian_case<T: Subj<F>, F: DualNumFloat, M: Dim, N: Dim>(fx: &Fx, inner: Option<&Fx>, fallible: bool, ctx: &Ctx) -> Result<Vec<Part>, Token>
where
    DefaultAllocator: Allocator<N> + Allocator<M> + Allocator<M, N> + Allocator<nalgebra::U1, N> + Allocator<nalgebra::U1, M> + Allocator<M, M> + Allocator<N, N>,
{
    let m = fx.ijk[0];
    let x = mkvec::<T, F, M>(&fx.a[..m], &fx.b[..m]);
    let y = mkvec::<T, F, N>(&fx.a[m..], &fx.b[m..]);
    let body = |u: OVector<HyperDualVec<T, F, M, N>, M>, v: OVector<HyperDualVec<T, F, M, N>, N>| {
        ctx.seen.borrow_mut().extend(u.iter().chain(v.iter()).map(|x| x.re.raw()));
        behave(
            ctx,
            || match fx.hand {
                Some(h) => {
                    let mut r = Rng::new(h);
                    let n = fx.a.len() - m;
                    let re = hv::<T, F>(&mut r);
                    let (e1, p1) = hmat::<T, F, M, nalgebra::U1>(&mut r, m, 1, false);
                    let (e2, p2) = hmat::<T, F, nalgebra::U1, N>(&mut r, 1, n, false);
                    let (e12, p12) = hmat::<T, F, M, N>(&mut r, m, n, false);
                    let mut p = vec![re.part(), vmark(m)];
                    p.extend(p1);
                    p.push(vmark(n));
                    p.extend(p2);
                    p.push(mmark(m, n));
                    p.extend(p12);
                    *ctx.built.borrow_mut() = Some(p);
                    HyperDualVec::new(re, e1, e2, e12)
                }
                None => evaluate(fx, 0, &u.iter().chain(v.iter()).cloned().collect::<Vec<_>>()),
            },
            reenter_with!(ctx, inner, |i, c| partial_hessian_case::<T, F, M, N>(i, None, fallible, c)),
        )
    };
    let r = if fallible { try_partial_hessian(body, x, y)? } else { partial_hessian(|u, v| infallible(body(u, v)), x, y) };
    let mut out = vec![r.0.part()];
    vec_parts(&r.1, &mut out);
    vec_parts(&r.2, &mut out);
    mat_parts(&r.3, &mut out);
    Ok(out)
}

// ---- dispatch on the scenario's type configuration -----------------------------------------------------------

pub const SCALARS: &[&str] = &["f64", "f32", "nested", "nestedvec"];
pub const DIMS1: &[&str] = &["S1", "S2", "S3", "S4", "S5", "S6", "S8", "S10", "S16", "Dyn", "Dyn"];
/// (outputs x inputs) for jacobian, (x x y) for partial_hessian
pub const DIMS2: &[&str] = &["S1xS1", "S2xS3", "S3xS2", "S1xS4", "S4xS1", "S3xS3", "DynxDyn", "S2xDyn", "DynxS3"];
/// a large statically sized shape (the result matrix alone is 19 kB for f64): size-gated code paths
pub const BIG_STATIC2: &str = "S40xS60";

pub fn static_len(d: &str) -> Option<usize> {
    d.strip_prefix('S').and_then(|n| n.parse().ok())
}

macro_rules! by_scalar {
    ($f:ident, $scalar:expr, $($arg:expr),*) => {
        match $scalar {
            "f64" => $f::<f64, f64>($($arg),*),
            "f32" => $f::<f32, f32>($($arg),*),
            "nested" => $f::<Dual64, f64>($($arg),*),
            "nestedvec" => $f::<DualDVec64, f64>($($arg),*),
            other => panic!("harness error: scalar configuration {other}"),
        }
    };
}
macro_rules! by_scalar_dim {
    ($f:ident, $scalar:expr, $dim:expr, $($arg:expr),*) => {
        match ($scalar, $dim) {
            ("f64", "S1") => $f::<f64, f64, Const<1>>($($arg),*),
            ("f64", "S2") => $f::<f64, f64, Const<2>>($($arg),*),
            ("f64", "S3") => $f::<f64, f64, Const<3>>($($arg),*),
            ("f64", "S5") => $f::<f64, f64, Const<5>>($($arg),*),
            ("f64", "S8") => $f::<f64, f64, Const<8>>($($arg),*),
            ("f64", "S4") => $f::<f64, f64, Const<4>>($($arg),*),
            ("f64", "S6") => $f::<f64, f64, Const<6>>($($arg),*),
            ("f64", "S10") => $f::<f64, f64, Const<10>>($($arg),*),
            ("f64", "S16") => $f::<f64, f64, Const<16>>($($arg),*),
            ("f64", "Dyn") => $f::<f64, f64, Dyn>($($arg),*),
            ("f32", "S1") => $f::<f32, f32, Const<1>>($($arg),*),
            ("f32", "S2") => $f::<f32, f32, Const<2>>($($arg),*),
            ("f32", "S3") => $f::<f32, f32, Const<3>>($($arg),*),
            ("f32", "S5") => $f::<f32, f32, Const<5>>($($arg),*),
            ("f32", "S8") => $f::<f32, f32, Const<8>>($($arg),*),
            ("f32", "S4") => $f::<f32, f32, Const<4>>($($arg),*),
            ("f32", "S6") => $f::<f32, f32, Const<6>>($($arg),*),
            ("f32", "S10") => $f::<f32, f32, Const<10>>($($arg),*),
            ("f32", "S16") => $f::<f32, f32, Const<16>>($($arg),*),
            ("f32", "Dyn") => $f::<f32, f32, Dyn>($($arg),*),
            ("nested", "S1") => $f::<Dual64, f64, Const<1>>($($arg),*),
            ("nestedvec", "S1") => $f::<DualDVec64, f64, Const<1>>($($arg),*),
            ("nested", "S2") => $f::<Dual64, f64, Const<2>>($($arg),*),
            ("nestedvec", "S2") => $f::<DualDVec64, f64, Const<2>>($($arg),*),
            ("nested", "S3") => $f::<Dual64, f64, Const<3>>($($arg),*),
            ("nestedvec", "S3") => $f::<DualDVec64, f64, Const<3>>($($arg),*),
            ("nested", "S5") => $f::<Dual64, f64, Const<5>>($($arg),*),
            ("nestedvec", "S5") => $f::<DualDVec64, f64, Const<5>>($($arg),*),
            ("nested", "S8") => $f::<Dual64, f64, Const<8>>($($arg),*),
            ("nestedvec", "S8") => $f::<DualDVec64, f64, Const<8>>($($arg),*),
            ("nested", "S4") => $f::<Dual64, f64, Const<4>>($($arg),*),
            ("nestedvec", "S4") => $f::<DualDVec64, f64, Const<4>>($($arg),*),
            ("nested", "S6") => $f::<Dual64, f64, Const<6>>($($arg),*),
            ("nestedvec", "S6") => $f::<DualDVec64, f64, Const<6>>($($arg),*),
            ("nested", "S10") => $f::<Dual64, f64, Const<10>>($($arg),*),
            ("nestedvec", "S10") => $f::<DualDVec64, f64, Const<10>>($($arg),*),
            ("nested", "S16") => $f::<Dual64, f64, Const<16>>($($arg),*),
            ("nestedvec", "S16") => $f::<DualDVec64, f64, Const<16>>($($arg),*),
            ("nested", "Dyn") => $f::<Dual64, f64, Dyn>($($arg),*),
            ("nestedvec", "Dyn") => $f::<DualDVec64, f64, Dyn>($($arg),*),
            other => panic!("harness error: configuration {other:?}"),
        }
    };
}
macro_rules! by_scalar_dim2 {
    ($f:ident, $scalar:expr, $dim:expr, $($arg:expr),*) => {
        match ($scalar, $dim) {
            ("f64", "S1xS1") => $f::<f64, f64, Const<1>, Const<1>>($($arg),*),
            ("f64", "S2xS3") => $f::<f64, f64, Const<2>, Const<3>>($($arg),*),
            ("f64", "S3xS2") => $f::<f64, f64, Const<3>, Const<2>>($($arg),*),
            ("f64", "S1xS4") => $f::<f64, f64, Const<1>, Const<4>>($($arg),*),
            ("f64", "S4xS1") => $f::<f64, f64, Const<4>, Const<1>>($($arg),*),
            ("f64", "S3xS3") => $f::<f64, f64, Const<3>, Const<3>>($($arg),*),
            ("f64", "S40xS60") => $f::<f64, f64, Const<40>, Const<60>>($($arg),*),
            ("f64", "DynxDyn") => $f::<f64, f64, Dyn, Dyn>($($arg),*),
            ("f64", "S2xDyn") => $f::<f64, f64, Const<2>, Dyn>($($arg),*),
            ("f64", "DynxS3") => $f::<f64, f64, Dyn, Const<3>>($($arg),*),
            ("f32", "S1xS1") => $f::<f32, f32, Const<1>, Const<1>>($($arg),*),
            ("f32", "S2xS3") => $f::<f32, f32, Const<2>, Const<3>>($($arg),*),
            ("f32", "S3xS2") => $f::<f32, f32, Const<3>, Const<2>>($($arg),*),
            ("f32", "S1xS4") => $f::<f32, f32, Const<1>, Const<4>>($($arg),*),
            ("f32", "S4xS1") => $f::<f32, f32, Const<4>, Const<1>>($($arg),*),
            ("f32", "S3xS3") => $f::<f32, f32, Const<3>, Const<3>>($($arg),*),
            ("f32", "S40xS60") => $f::<f32, f32, Const<40>, Const<60>>($($arg),*),
            ("f32", "DynxDyn") => $f::<f32, f32, Dyn, Dyn>($($arg),*),
            ("f32", "S2xDyn") => $f::<f32, f32, Const<2>, Dyn>($($arg),*),
            ("f32", "DynxS3") => $f::<f32, f32, Dyn, Const<3>>($($arg),*),
            ("nested", "S1xS1") => $f::<Dual64, f64, Const<1>, Const<1>>($($arg),*),
            ("nestedvec", "S1xS1") => $f::<DualDVec64, f64, Const<1>, Const<1>>($($arg),*),
            ("nested", "S2xS3") => $f::<Dual64, f64, Const<2>, Const<3>>($($arg),*),
            ("nestedvec", "S2xS3") => $f::<DualDVec64, f64, Const<2>, Const<3>>($($arg),*),
            ("nested", "S3xS2") => $f::<Dual64, f64, Const<3>, Const<2>>($($arg),*),
            ("nestedvec", "S3xS2") => $f::<DualDVec64, f64, Const<3>, Const<2>>($($arg),*),
            ("nested", "S1xS4") => $f::<Dual64, f64, Const<1>, Const<4>>($($arg),*),
            ("nestedvec", "S1xS4") => $f::<DualDVec64, f64, Const<1>, Const<4>>($($arg),*),
            ("nested", "S4xS1") => $f::<Dual64, f64, Const<4>, Const<1>>($($arg),*),
            ("nestedvec", "S4xS1") => $f::<DualDVec64, f64, Const<4>, Const<1>>($($arg),*),
            ("nested", "S3xS3") => $f::<Dual64, f64, Const<3>, Const<3>>($($arg),*),
            ("nested", "S40xS60") => $f::<Dual64, f64, Const<40>, Const<60>>($($arg),*),
            ("nestedvec", "S3xS3") => $f::<DualDVec64, f64, Const<3>, Const<3>>($($arg),*),
            ("nestedvec", "S40xS60") => $f::<DualDVec64, f64, Const<40>, Const<60>>($($arg),*),
            ("nested", "DynxDyn") => $f::<Dual64, f64, Dyn, Dyn>($($arg),*),
            ("nestedvec", "DynxDyn") => $f::<DualDVec64, f64, Dyn, Dyn>($($arg),*),
            ("nested", "S2xDyn") => $f::<Dual64, f64, Const<2>, Dyn>($($arg),*),
            ("nestedvec", "S2xDyn") => $f::<DualDVec64, f64, Const<2>, Dyn>($($arg),*),
            ("nested", "DynxS3") => $f::<Dual64, f64, Dyn, Const<3>>($($arg),*),
            ("nestedvec", "DynxS3") => $f::<DualDVec64, f64, Dyn, Const<3>>($($arg),*),
            other => panic!("harness error: configuration {other:?}"),
        }
    };
}

/// run one driver call of the real code
pub fn call(driver: &str, scalar: &str, dim: &str, fx: &Fx, inner: Option<&Fx>, fallible: bool, ctx: &Ctx) -> Result<Vec<Part>, Token> {
    match driver {
        "first_derivative" => by_scalar!(first_derivative_case, scalar, fx, inner, fallible, ctx),
        "second_derivative" => by_scalar!(second_derivative_case, scalar, fx, inner, fallible, ctx),
        "third_derivative" => by_scalar!(third_derivative_case, scalar, fx, inner, fallible, ctx),
        "second_partial_derivative" => by_scalar!(second_partial_derivative_case, scalar, fx, inner, fallible, ctx),
        "third_partial_derivative" => by_scalar!(third_partial_derivative_case, scalar, fx, inner, fallible, ctx),
        "third_partial_derivative_vec" => by_scalar!(third_partial_derivative_vec_case, scalar, fx, inner, fallible, ctx),
        "gradient" => by_scalar_dim!(gradient_case, scalar, dim, fx, inner, fallible, ctx),
        "hessian" => by_scalar_dim!(hessian_case, scalar, dim, fx, inner, fallible, ctx),
        "jacobian" => by_scalar_dim2!(jacobian_case, scalar, dim, fx, inner, fallible, ctx),
        "partial_hessian" => by_scalar_dim2!(partial_hessian_case, scalar, dim, fx, inner, fallible, ctx),
        other => panic!("harness error: unknown driver {other}"),
    }
}

/// the real parts the closure of a scenario must be handed: the caller's point, component by component, signs of zeros included
pub fn handed(scalar: &str, fx: &Fx) -> Vec<Part> {
    fn one<T: Subj<F>, F>(fx: &Fx) -> Vec<Part> {
        fx.a.iter().zip(&fx.b).map(|(a, b)| T::make(*a, *b).raw()).collect()
    }
    match scalar {
        "f64" => one::<f64, f64>(fx),
        "f32" => one::<f32, f32>(fx),
        "nested" => one::<Dual64, f64>(fx),
        "nestedvec" => one::<DualDVec64, f64>(fx),
        other => panic!("harness error: scalar configuration {other}"),
    }
}
