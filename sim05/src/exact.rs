//! The reference model of C05: polynomials with small integer coefficients, differentiated symbolically and
//! evaluated in exact dyadic arithmetic (i128 numerator over a power of two).  No floating point, no code of
//! the crate under test.

use crate::rng::Rng;
use num_dual::DualNum;

/// num / 2^exp, exactly
#[derive(Clone, Copy, Debug, PartialEq, Eq)]
pub struct Dy {
    num: i128,
    exp: u32,
}

impl Dy {
    pub fn int(i: i64) -> Dy {
        Dy { num: i as i128, exp: 0 }
    }
    /// k / 2
    pub fn halves(k: i64) -> Dy {
        Dy { num: k as i128, exp: 1 }.norm()
    }
    fn norm(mut self) -> Dy {
        while self.exp > 0 && self.num % 2 == 0 {
            self.num /= 2;
            self.exp -= 1;
        }
        self
    }
    pub fn add(self, o: Dy) -> Dy {
        let e = self.exp.max(o.exp);
        Dy { num: (self.num << (e - self.exp)) + (o.num << (e - o.exp)), exp: e }.norm()
    }
    pub fn mul(self, o: Dy) -> Dy {
        Dy { num: self.num * o.num, exp: self.exp + o.exp }.norm()
    }
    /// the f64 with exactly this value (the harness keeps all values far inside the exactly representable range)
    pub fn to_f64(self) -> f64 {
        assert!(self.num.unsigned_abs() < (1u128 << 53) && self.exp < 60, "harness error: reference value not exactly representable");
        self.num as f64 / (1u64 << self.exp) as f64
    }
    /// bits the result must have: the exact value, as f64 (f32 results are widened exactly before comparing);
    /// zeros compare without their sign (C05 is about derivative values, not about the sign of a vanishing one)
    pub fn bits(self, f32_subject: bool) -> u64 {
        let v = self.to_f64();
        if f32_subject {
            assert!((v as f32) as f64 == v, "harness error: reference value not exactly representable in f32");
        }
        canon(v)
    }
}

pub fn canon(v: f64) -> u64 {
    if v == 0.0 {
        0
    } else {
        v.to_bits()
    }
}

#[derive(Clone, Debug, PartialEq)]
pub struct Poly {
    pub nvars: usize,
    /// (coefficient, exponent per variable)
    pub terms: Vec<(i64, Vec<u8>)>,
}

impl Poly {
    /// a seeded polynomial in which every variable occurs, with mixed terms, total degree <= max_deg
    pub fn gen(r: &mut Rng, nvars: usize, max_deg: u8, simple: bool) -> Poly {
        if nvars == 0 {
            return Poly { nvars, terms: vec![([3, -2, 1][r.below(3)], vec![])] };
        }
        let mut terms: Vec<(i64, Vec<u8>)> = vec![];
        if simple {
            // x0 * x1 * ... (up to three factors) + 2 * x_last^2 + x_i for every i
            let mut e = vec![0u8; nvars];
            for x in e.iter_mut().take(3.min(nvars)) {
                *x = 1;
            }
            if nvars == 1 {
                e[0] = max_deg.min(3);
            }
            terms.push((1, e));
            let mut e = vec![0u8; nvars];
            e[nvars - 1] = 2;
            terms.push((2, e));
            for i in 0..nvars {
                let mut e = vec![0u8; nvars];
                e[i] = 1;
                terms.push((i as i64 + 1, e));
            }
            return Poly { nvars, terms };
        }
        // degenerate shapes first (swarm style): a constant, a single input returned unchanged, a function that
        // ignores some of its variables entirely - their derivative parts are then *absent* inside the closure's
        // result, not zero, and the driver has to supply the zeros
        match r.below(12) {
            0 => return Poly { nvars, terms: vec![([3, -2, 1][r.below(3)], vec![0u8; nvars])] },
            1 => {
                let mut e = vec![0u8; nvars];
                e[r.below(nvars)] = 1;
                return Poly { nvars, terms: vec![(1, e)] };
            }
            2 | 3 if nvars >= 2 => {
                // a polynomial in a random non-empty subset of the variables
                let used: Vec<usize> = (0..nvars).filter(|_| r.chance(500)).collect();
                let used = if used.is_empty() { vec![r.below(nvars)] } else { used };
                let mut terms = vec![];
                for _ in 0..(2 + r.below(3)) {
                    let mut e = vec![0u8; nvars];
                    for _ in 0..(1 + r.below(max_deg as usize)) {
                        e[used[r.below(used.len())]] += 1;
                    }
                    terms.push(([1, 2, 3, -1, -2][r.below(5)], e));
                }
                return Poly { nvars, terms };
            }
            _ => {}
        }
        let nterms = 2 + r.below(4);
        for _ in 0..nterms {
            let mut e = vec![0u8; nvars];
            let deg = 1 + r.below(max_deg as usize);
            for _ in 0..deg {
                e[r.below(nvars)] += 1;
            }
            let c = [1, 2, 3, 4, -1, -2, -3][r.below(7)];
            terms.push((c, e));
        }
        // every variable occurs, each in a mixed term with its neighbour (so that no partial derivative is trivially absent)
        for i in 0..nvars {
            let mut e = vec![0u8; nvars];
            e[i] = 1;
            if nvars > 1 && max_deg >= 2 {
                e[(i + 1) % nvars] += 1;
            }
            terms.push(([1, -1, 2, 3][r.below(4)], e));
        }
        if max_deg >= 3 && nvars >= 3 {
            let mut e = vec![0u8; nvars];
            let s = r.below(nvars);
            for d in 0..3 {
                e[(s + d) % nvars] += 1;
            }
            terms.push(([1, 2, -1][r.below(3)], e));
        }
        Poly { nvars, terms }
    }
    pub fn diff(&self, var: usize) -> Poly {
        let mut terms = vec![];
        for (c, e) in &self.terms {
            if e[var] > 0 {
                let mut e2 = e.clone();
                e2[var] -= 1;
                terms.push((c * e[var] as i64, e2));
            }
        }
        Poly { nvars: self.nvars, terms }
    }
    pub fn eval(&self, at: &[Dy]) -> Dy {
        let mut acc = Dy::int(0);
        for (c, e) in &self.terms {
            let mut t = Dy::int(*c);
            for (v, k) in at.iter().zip(e) {
                for _ in 0..*k {
                    t = t.mul(*v);
                }
            }
            acc = acc.add(t);
        }
        acc
    }
    /// directional derivative along `dir` at `at`
    pub fn eval_dir(&self, at: &[Dy], dir: &[Dy]) -> Dy {
        let mut acc = Dy::int(0);
        for i in 0..self.nvars {
            acc = acc.add(self.diff(i).eval(at).mul(dir[i]));
        }
        acc
    }
    pub fn show(&self) -> String {
        self.terms.iter().map(|(c, e)| {
            let vars: Vec<String> = e.iter().enumerate().filter(|(_, k)| **k > 0).map(|(i, k)| if *k == 1 { format!("x{i}") } else { format!("x{i}^{k}") }).collect();
            format!("{c}{}{}", if vars.is_empty() { "" } else { "*" }, vars.join("*"))
        }).collect::<Vec<_>>().join(" + ")
    }
}

/// The same polynomial evaluated by the code under test, written the way user closures are written: owned and
/// in-place forms of + - *, operands on either side, an accumulator that starts as a constant (absent derivative
/// parts), negation, exact scalar and dual division.  `style` picks the forms; every style computes the same exact value.
pub fn eval_generic<X: DualNum<F> + Clone, F: num_dual::DualNumFloat>(p: &Poly, vars: &[X], style: u64) -> X {
    let mut r = Rng::new(style);
    let two = F::from_f64(2.0).expect("2 as F");
    let mut acc: Option<X> = if r.chance(500) { Some(X::zero()) } else { None };
    for (c, e) in &p.terms {
        let neg = *c < 0;
        let mut term = X::from_i64(c.abs()).expect("from_i64");
        for (v, k) in vars.iter().zip(e) {
            for _ in 0..*k {
                match r.below(3) {
                    0 => term = term * v.clone(),
                    1 => term *= v.clone(),
                    _ => term = v.clone() * term,
                }
            }
        }
        if r.chance(250) {
            term = (term * two) / two;
        }
        if r.chance(150) {
            let four = X::from_i64(4).expect("4");
            term = (term * four.clone()) / four;
        }
        acc = Some(match (acc, neg, r.below(3)) {
            (None, false, _) => term,
            (None, true, _) => -term,
            (Some(a), false, 0) => a + term,
            (Some(mut a), false, 1) => {
                a += term;
                a
            }
            (Some(a), false, _) => term + a,
            (Some(a), true, 0) => a - term,
            (Some(mut a), true, 1) => {
                a -= term;
                a
            }
            (Some(a), true, _) => -(term - a),
        });
    }
    acc.unwrap_or_else(X::zero)
}

/// A function whose derivatives are NOT exactly representable: products and quotients of two polynomials with
/// non-dyadic coefficients, a sine and an exponential.  There is no exact reference for it; what the drivers owe for such a
/// function is checked by self-consistency (same result from both variants and after every fault; exact covariance under
/// scaling by a power of two).
pub fn eval_inexact<X: DualNum<F> + Clone, F: num_dual::DualNumFloat>(p: &Poly, q: &Poly, vars: &[X], style: u64) -> X {
    let c = |v: f64| F::from_f64(v).expect("constant as F");
    let u = eval_generic(p, vars, style) * c(0.3) + c(0.7);
    let v = eval_generic(q, vars, style ^ 0x55) * c(1.1) - c(0.45);
    let bounded = (u.clone() * c(0.125)).sin();
    let denom = v.clone() * v.clone() + c(1.7);
    u.clone() * v.clone() + bounded.clone() * v.clone() * c(0.9) + (u / denom) * c(2.3) + (bounded * c(0.5)).exp()
}

/// A function whose second and higher derivatives cancel analytically: a linear form plus terms that are identically
/// zero but are evaluated in two different orders, (ab)(cd) - (ac)(bd) and sin s cos t + cos s sin t - sin(s + t).  What the
/// code under test computes for its higher derivatives is rounding residue of either sign, with no symmetry and no
/// relation between neighbouring entries - and that residue is what the drivers owe the caller, like any other value.
pub fn eval_cancel<X: DualNum<F> + Clone, F: num_dual::DualNumFloat>(p: &Poly, q: &Poly, vars: &[X], style: u64) -> X {
    let c = |v: f64| F::from_f64(v).expect("constant as F");
    let mut lin = X::from_f64(0.7).expect("constant");
    for (i, x) in vars.iter().enumerate() {
        lin += x.clone() * c(0.3 + 0.1 * (i % 7) as f64);
    }
    let a = eval_generic(p, vars, style) * c(0.3) + c(0.7);
    let b = eval_generic(q, vars, style ^ 0x55) * c(1.1) - c(0.45);
    let s = a.clone() * c(0.125);
    let t = b.clone() * c(0.2);
    let cc = s.sin() + c(1.3);
    let d = b.clone() * b.clone() + c(1.7);
    let zero1 = (a.clone() * b.clone()) * (cc.clone() * d.clone()) - (a * cc) * (b * d);
    let zero2 = s.sin() * t.cos() + s.cos() * t.sin() - (s + t).sin();
    lin + zero1 + zero2
}
