// Known finding C18 (not repaired): rendering a matrix-valued derivative part panics when
// (widest entry text + 1) * columns - 1 exceeds 65535.
//
// `Derivative::fmt` (src/derivative.rs:125-139) hands matrix-shaped parts to nalgebra's `Display`, which
// pads with `{:>width$}` where width = (widest entry + 1) * ncols - 1 (nalgebra-0.33 base/matrix.rs:1943-1972).
// Since Rust 1.87 a formatting width above u16::MAX panics with "Formatting argument out of range"
// (it was a plain usize before; the crate declares rust-version 1.81).  So `to_string()` does not show the
// parts, it aborts the caller - for finite values and a type in C18's quantifier.
//
// Run in a checkout of num-dual:  cp <this file> tests/ && cargo test --offline --test demo_c18_wide_matrix_panics
use nalgebra::{DMatrix, Dyn};
use num_dual::{Derivative, Dual2DVec64, Dual2Vec};

fn inner(v: f64, d: usize) -> Dual2DVec64 {
    Dual2DVec64::new(v, Derivative::none(), Derivative::some(DMatrix::from_element(d, d, v)))
}

/// a Hessian-carrying number whose entries are themselves Hessian-carrying numbers (second derivatives of
/// second derivatives) with entries that need ~300 digits in positional notation
#[test]
fn nested_matrix_part_renders_without_panic() {
    let v = 1.5e300;
    let x = Dual2Vec::<Dual2DVec64, f64, Dyn>::new(inner(v, 2), Derivative::none(), Derivative::some(DMatrix::from_fn(2, 2, |_, _| inner(v, 12))));
    let text = x.to_string(); // panics: Formatting argument out of range
    assert!(text.contains("ε1²"));
}

/// the same without nesting: a plain 212 x 212 Hessian of very large (or subnormal) numbers
#[test]
fn wide_plain_matrix_part_renders_without_panic() {
    let x = Dual2DVec64::new(1.0, Derivative::none(), Derivative::some(DMatrix::from_element(212, 212, 1.7976931348623157e308)));
    let text = x.to_string(); // panics: Formatting argument out of range
    assert!(text.contains("ε1²"));
}

/// control: the same shapes with short numbers render
#[test]
fn control_short_numbers_render() {
    let x = Dual2Vec::<Dual2DVec64, f64, Dyn>::new(inner(1.5, 2), Derivative::none(), Derivative::some(DMatrix::from_fn(2, 2, |_, _| inner(1.5, 8))));
    assert!(x.to_string().contains("ε1²"));
    let y = Dual2DVec64::new(1.0, Derivative::none(), Derivative::some(DMatrix::from_element(212, 212, 2.5)));
    assert!(y.to_string().contains("ε1²"));
}
