"""Minimal demonstration of the C17 finding 'x (op) object-array overwrites the array' (needs numpy).
PYTHONPATH=<dir with num_dual.so> python3-vt demo_operand_modified.py   -> exit 1 on the pinned tree, 0 once fixed"""
import sys

import numpy as np

import num_dual as nd

x = nd.Dual64(2.0, 1.0)
arr = np.array([nd.Dual64(1.0, 0.5), nd.Dual64(3.0, 0.0)], dtype=object)
before = [repr(v) for v in arr]
y = x * arr
after = [repr(v) for v in arr]
print("x * arr        =", [repr(v) for v in y])
print("arr before     =", before)
print("arr afterwards =", after, "(same object as the result)" if y is arr else "")
z = x * arr
print("x * arr again  =", [repr(v) for v in z], "<- differs from the first product" if [repr(v) for v in z] != ["2 + 2ε", "6 + 3ε"] else "")
sys.exit(0 if before == after else 1)
